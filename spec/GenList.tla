------------------------------- MODULE GenList ------------------------------
(***************************************************************************)
(* Input family for C14: every list of 0..MaxLen entries over two ordinary *)
(* names and the terminator, each with a multiplier from Muls (0 = none    *)
(* written), plus every single-entry and every (x, boundary) list over the *)
(* boundary multipliers.  Multipliers are texts: the harness writes them   *)
(* as they are.                                                            *)
(***************************************************************************)
EXTENDS Naturals, Sequences, FiniteSets, TLC, Json, SequencesExt
CONSTANT MaxLen

Names == {"a", "b", "T"}
Muls  == {"", "2", "3"}
Boundary == {"0", "1", "9999", "10000", "0x10", "-1", "0x270F", "0x2710"}

Entry == [name : Names, mul : Muls]
Lists == UNION {[1..n -> Entry] : n \in 0..MaxLen}
Edge  == {<<[name |-> x, mul |-> m]>> : x \in Names, m \in Boundary}
         \cup {<<[name |-> x, mul |-> ""], [name |-> y, mul |-> m]>> : x \in Names, y \in Names, m \in Boundary}
         \cup {<<[name |-> y, mul |-> m], [name |-> x, mul |-> "2"]>> : x \in Names, y \in Names, m \in Boundary}

ASSUME PrintT(<<"GenList", Cardinality(Lists), Cardinality(Edge)>>)
ASSUME ndJsonSerialize("lists.ndjson", SetToSeq(Lists \cup Edge))

VARIABLE x
Init == x = 0
Next == x' = x
=============================================================================
