-------------------------------- MODULE LexPos ------------------------------
(***************************************************************************)
(* Position bookkeeping of the lexer (C19): where a token starts and ends  *)
(* given what precedes it.  State: line (1-based), b (byte column), r      *)
(* (character column), both 0-based within the line.                       *)
(*   Adv(nb, nr)  blanks, tabs, CR, comment text: same line, columns grow  *)
(*   NL           a line feed: next line, both columns 0                   *)
(*   a token of nb bytes / nr characters containing nl line feeds, with    *)
(*   tailb / tailr bytes / characters after its last line feed             *)
(***************************************************************************)
EXTENDS Naturals, Sequences, TLC

Start == [line |-> 1, b |-> 0, r |-> 0]
Adv(p, nb, nr) == [p EXCEPT !.b = p.b + nb, !.r = p.r + nr]
NL(p) == [line |-> p.line + 1, b |-> 0, r |-> 0]
AfterTok(p, t) == IF t.nl = 0 THEN Adv(p, t.nb, t.nr)
                  ELSE [line |-> p.line + t.nl, b |-> t.tailb, r |-> t.tailr]

(* what the lexer must report for expected token t found at position p *)
TokOK(p, t, o) ==
    /\ o.type = t.type /\ o.lit = t.lit
    /\ o.line = p.line /\ o.sb = p.b /\ o.sr = p.r
    /\ (t.single => o.eline = p.line /\ o.eb = p.b + t.nb /\ o.er = p.r + t.nr)
=============================================================================
