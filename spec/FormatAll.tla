------------------------------- MODULE FormatAll -----------------------------
(***************************************************************************)
(* The REAL FormatText on every character string of GenChars (font: every  *)
(* character and every code 1 px) against FormatLex!Formatted.             *)
(* c.chars, c.P, c.out (the real result), c.err / c.panic.                 *)
(***************************************************************************)
EXTENDS FormatLex, Json
Cases == ndJsonDeserialize("formatall.ndjson")
VARIABLE ci
Init == ci \in 1..Len(Cases)
Next == UNCHANGED ci
Spec == Init /\ [][Next]_ci
\* (whether an empty last line follows a trailing break code is not something the property fixes)
Trim(x) == IF Len(x) > 0 /\ SubSeq(x, Len(x), Len(x)) = "\n" THEN SubSeq(x, 1, Len(x) - 1) ELSE x
Same(c) == ~c.err /\ Trim(c.out) = Trim(Formatted(c.P, c.chars))
Report == ~Same(Cases[ci]) =>
            PrintT(<<"DIVERGED", ci, Cases[ci].id, IF WellFormed(Cases[ci].chars) THEN "violation" ELSE "drift", Formatted(Cases[ci].P, Cases[ci].chars)>>)
=============================================================================
