-------------------------------- MODULE ListAll ------------------------------
(***************************************************************************)
(* ListModel against the REAL compiler on every token string of GenChars   *)
(* as the body of a movement statement and of a mart: the same accept /    *)
(* reject and the same lines under the label.                              *)
(***************************************************************************)
EXTENDS ListModel, Json
Cases == ndJsonDeserialize("listall.ndjson")
VARIABLE ci
Init == ci \in 1..Len(Cases)
Next == UNCHANGED ci
Spec == Init /\ [][Next]_ci
Conform(c) == LET m == List(c.kind, c.toks) IN m.err = c.err /\ (~m.err => m.lines = c.lines)
Report == ~Conform(Cases[ci]) => PrintT(<<"DIVERGED", ci, Cases[ci].id, "conformance", List(Cases[ci].kind, Cases[ci].toks)>>)
=============================================================================
