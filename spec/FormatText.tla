------------------------------ MODULE FormatText ----------------------------
(***************************************************************************)
(* C07: the greedy text-box filler behind format().                        *)
(*                                                                         *)
(* Input: a token list - words [k |-> "w", w |-> pixel width] and break    *)
(* codes [k |-> "b", c |-> "\n" | "\l" | "\p" | "\N"] - and the parameters *)
(* max (maxLineLength), ov (cursorOverlapWidth), nl (numLines), sp (width  *)
(* of a blank).  Output: lines [ws |-> word positions, end |-> code | ""]. *)
(*                                                                         *)
(* State machine: one token per step.                                      *)
(*   Place   the word fits on the current line (counting the cursor        *)
(*           overlap when a prompt may follow: another token follows and   *)
(*           the line is the last of the box or the next token is \p)      *)
(*   Wrap    it does not fit and the line is not empty: end the line with  *)
(*           \n (first nl-1 breaks of a paragraph) or \l, start a new one  *)
(*   Break   an explicit code ends the line; \N is resolved like a wrap,   *)
(*           \p starts a new paragraph                                     *)
(*   Finish  the last line is flushed                                      *)
(* The module is model-checked on its own for all inputs of a bounded      *)
(* family (FormatText.cfg): words and explicit breaks are preserved in     *)
(* order, every multi-word line fits, the break discipline holds.          *)
(* FormatCases.tla compares the REAL FormatText with Run.                  *)
(***************************************************************************)
EXTENDS Naturals, Sequences, FiniteSets, TLC, FormatStep   \* S0, AutoCode, StepTok, Finish

BS == "\\"
Code(c) == BS \o c                    \* "\n" as the two characters backslash, n

Params == [max : Nat, ov : Nat, nl : Nat, sp : Nat]

RECURSIVE RunFrom(_, _, _, _)
RunFrom(P, T, i, s) == IF i > Len(T) THEN Finish(s) ELSE RunFrom(P, T, i + 1, StepTok(P, T, i, s))
Run(P, T) == RunFrom(P, T, 1, S0)

-----------------------------------------------------------------------------
(* The state machine, for model checking the filler itself.                *)
CONSTANTS MaxToks, Widths, Maxes, Overlaps, NumLines
VARIABLES P, T, i, s
vars == <<P, T, i, s>>

Tok == [k : {"w"}, w : Widths] \cup [k : {"b"}, c : {Code("n"), Code("l"), Code("p"), Code("N")}]

Init == /\ P \in [max : Maxes, ov : Overlaps, nl : NumLines, sp : {1}]
        /\ T \in UNION {[1..n -> Tok] : n \in 0..MaxToks}
        /\ i = 1 /\ s = S0
Next == /\ i <= Len(T)
        /\ s' = StepTok(P, T, i, s) /\ i' = i + 1 /\ UNCHANGED <<P, T>>
Spec == Init /\ [][Next]_vars

Lines == IF i > Len(T) THEN Finish(s) ELSE s.out       \* finished lines so far

LineWidth(l) == IF l.ws = <<>> THEN 0
                ELSE LET RECURSIVE Sum(_)
                         Sum(k) == IF k = 0 THEN 0 ELSE T[l.ws[k]].w + Sum(k - 1)
                     IN Sum(Len(l.ws)) + (Len(l.ws) - 1) * P.sp

(* index of a finished line within its paragraph *)
RECURSIVE ParIdx(_, _)
ParIdx(ls, j) == IF j = 1 THEN 0
                 ELSE IF ls[j - 1].end = Code("p") THEN 0 ELSE ParIdx(ls, j - 1) + 1

(* lines on which the continue prompt is shown: ended by \p, or by \l at   *)
(* the last line of the box or later                                       *)
CursorLine(ls, j) == ls[j].end = Code("p") \/ (ls[j].end = Code("l") /\ ParIdx(ls, j) >= P.nl - 1)

(* every finished multi-word line fits, with the overlap where the prompt is shown *)
Fits == \A j \in 1..Len(Lines) :
           Len(Lines[j].ws) > 1 =>
              LineWidth(Lines[j]) + (IF CursorLine(Lines, j) THEN P.ov ELSE 0) <= P.max

(* words are kept, in order, each exactly once *)
RECURSIVE Concat(_)
Concat(ss) == IF ss = <<>> THEN <<>> ELSE Head(ss) \o Concat(Tail(ss))
WordsKept == LET placed == Concat([j \in 1..Len(s.out) |-> s.out[j].ws]) \o s.cur
                 words  == SelectSeq([k \in 1..(i - 1) |-> k], LAMBDA k : T[k].k = "w")
             IN placed = words

(* a break chosen by the filler (wrap or \N) is \n for the first nl-1     *)
(* lines of a paragraph and \l after that                                  *)
Discipline == \A j \in 1..Len(Lines) :
                 Lines[j].how \in {"wrap", "auto"} =>
                    Lines[j].end = (IF ParIdx(Lines, j) >= P.nl - 1 THEN Code("l") ELSE Code("n"))

(* a word was moved to a new line only because it did not fit *)
MovedOnlyIfNeeded ==
    \A j \in 1..(Len(Lines) - 1) :
        Lines[j].how = "wrap" =>
           LET k      == Lines[j + 1].ws[1]                 \* the word that was moved
               prompt == k < Len(T) /\ (ParIdx(Lines, j) >= P.nl - 1
                                         \/ (T[k + 1].k = "b" /\ T[k + 1].c = Code("p")))
           IN LineWidth(Lines[j]) + P.sp + T[k].w + (IF prompt THEN P.ov ELSE 0) > P.max
=============================================================================
