----------------------------- MODULE FormatCases ----------------------------
(***************************************************************************)
(* C07 binding: each case is one call of the REAL FormatText (directly, or *)
(* through format(...) in a compiled program) with the token list the      *)
(* text was rendered from, the effective parameters, and the produced      *)
(* lines parsed back into word positions and end codes.  The real lines    *)
(* must be the lines of FormatText!Run.                                    *)
(***************************************************************************)
EXTENDS Naturals, Sequences, TLC, Json

Cases == ndJsonDeserialize("fmtcases.ndjson")
VARIABLE ci

F == INSTANCE FormatText WITH MaxToks <- 0, Widths <- {}, Maxes <- {}, Overlaps <- {}, NumLines <- {},
                              P <- 0, T <- 0, i <- 0, s <- 0

Expected(c) == LET ls == F!Run(c.P, c.T) IN [j \in 1..Len(ls) |-> [ws |-> ls[j].ws, end |-> ls[j].end]]
Holds(c) == ~c.err /\ c.lines = Expected(c)

Init == ci \in 1..Len(Cases)
Next == UNCHANGED ci
Spec == Init /\ [][Next]_ci
Report == ~Holds(Cases[ci]) => PrintT(<<"DIVERGED", ci, Cases[ci].id>>)
=============================================================================
