------------------------------ MODULE TextEmit ------------------------------
(***************************************************************************)
(* C09: each case is one text of a source file (inline, text statement,    *)
(* poryswitch-selected, format()) with the directive lines the REAL        *)
(* compiler emitted under its label.                                       *)
(***************************************************************************)
EXTENDS Emission, Json

Cases == ndJsonDeserialize("texts.ndjson")
VARIABLE ci

Holds(c) ==
    /\ c.found                                       \* the label exists (once)
    /\ Len(c.lines) = Len(c.parts)                   \* one directive per source line
    /\ \A i \in 1..Len(c.lines) : c.lines[i].dir = Directive(c.type)
    /\ [i \in 1..Len(c.lines) |-> c.lines[i].content] = ExpectedTextLines(c.parts, c.type)

Init == ci \in 1..Len(Cases)
Next == UNCHANGED ci
Spec == Init /\ [][Next]_ci
Report == ~Holds(Cases[ci]) => PrintT(<<"DIVERGED", ci, Cases[ci].id>>)
=============================================================================
