------------------------------ MODULE TextEmit ------------------------------
(***************************************************************************)
(* C09: each case is one text of a source file (inline, text statement,    *)
(* poryswitch-selected, format()) with the directive lines the REAL        *)
(* compiler emitted under its label.                                       *)
(***************************************************************************)
EXTENDS Emission, Json

Cases == ndJsonDeserialize("texts.ndjson")
VARIABLE ci

\* A literal may run over several source lines: each line break inside the quotes,
\* together with the blanks that follow it, stands for one space.
Blank == {" ", "\t", "\n", "\r"}
Break == {"\n", "\r"}
RECURSIVE Col(_, _, _)
Col(s, i, skipping) ==
    IF i > Len(s) THEN ""
    ELSE LET ch == SubSeq(s, i, i) IN
         IF skipping /\ ch \in Blank THEN Col(s, i + 1, TRUE)
         ELSE IF ch \in Break THEN " " \o Col(s, i + 1, TRUE)
         ELSE ch \o Col(s, i + 1, FALSE)
Denoted(written) == [i \in 1..Len(written) |-> Col(written[i], 1, FALSE)]

RECURSIVE JoinNL(_, _)
JoinNL(ps, i) == IF i > Len(ps) THEN "" ELSE (IF i > 1 THEN "\n" ELSE "") \o ps[i] \o JoinNL(ps, i + 1)

\* c.written: the parts as written between the quotes; for format() texts c.fmtin is what the
\* harness gave to the real formatter and c.parts the lines it returned (C07 checks those)
Holds(c) ==
    LET den   == Denoted(c.written)
        parts == IF c.fmt THEN c.parts ELSE den IN
    /\ c.found                                       \* the label exists (once)
    /\ c.fmt => c.fmtin = JoinNL(den, 1)
    /\ Len(c.lines) = Len(parts)                     \* one directive per source line
    /\ \A i \in 1..Len(c.lines) : c.lines[i].dir = Directive(c.type)
    /\ [i \in 1..Len(c.lines) |-> c.lines[i].content] = ExpectedTextLines(parts, c.type)

Init == ci \in 1..Len(Cases)
Next == UNCHANGED ci
Spec == Init /\ [][Next]_ci
Report == ~Holds(Cases[ci]) => PrintT(<<"DIVERGED", ci, Cases[ci].id>>)
=============================================================================
