------------------------------ MODULE Commands ------------------------------
(***************************************************************************)
(* C10: each case is one straight-line script of a source file: the        *)
(* statements as written (commands as token lists - name, argument tokens, *)
(* commas - and labels) and the lines the REAL compiler emitted for it.    *)
(* The output must be exactly those lines, in order, once each, followed   *)
(* by the script's closing return.                                         *)
(***************************************************************************)
EXTENDS Naturals, Sequences, FiniteSets, TLC, Json

Cases == ndJsonDeserialize("cmdcases.ndjson")
VARIABLE ci

(* what a statement must look like in the output *)
ExpectedLine(s) == IF s.k = "label" THEN [k |-> "label", name |-> s.name, g |-> s.g]
                   ELSE [k |-> "cmd", toks |-> s.toks]
Expected(c) == [i \in 1..Len(c.stmts) |-> ExpectedLine(c.stmts[i])] \o <<[k |-> "cmd", toks |-> <<"return">>]>>

Holds(c) == ~c.err /\ c.found /\ c.lines = Expected(c)

Init == ci \in 1..Len(Cases)
Next == UNCHANGED ci
Spec == Init /\ [][Next]_ci
Report == ~Holds(Cases[ci]) => PrintT(<<"DIVERGED", ci, Cases[ci].id>>)
=============================================================================
