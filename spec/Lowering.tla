------------------------------- MODULE Lowering ------------------------------
(***************************************************************************)
(* The emitter's own algorithm (emitter/emitter.go, chunk.go, branch.go)   *)
(* as a state machine: a script body is split into CHUNKS that branch to   *)
(* one another, the chunks are ordered, and rendered with fall-throughs.   *)
(* This module models the IMPLEMENTATION (one action per branch of the     *)
(* worklist loop), not the meaning of the language; it is not used for     *)
(* verdicts.  It serves two purposes:                                      *)
(*   - LoweringRefine: the model's output refines PoryLang (a design-level *)
(*     result about the algorithm, no compiler involved);                  *)
(*   - LoweringConform: the real emitter's output for the same AST is,     *)
(*     line for line, the model's output (drift report; localises a        *)
(*     behavioural divergence to the step of the algorithm that changed).  *)
(*                                                                         *)
(* Input: the node tables of PoryLang for the AST THE REAL PARSER built    *)
(* (negations already pushed into the leaves), one script at a time:       *)
(* name, root block, optimize.                                             *)
(***************************************************************************)
EXTENDS Integers, Sequences, FiniteSets, TLC

(* ---- helpers on the source tables ---- *)
RECURSIVE StmtsFrom(_, _)
StmtsFrom(P, n) == IF n = 0 THEN <<>> ELSE <<n>> \o StmtsFrom(P, P.N[n].nxt)
BlockStmts(P, b) == StmtsFrom(P, P.N[b].first)

NoBr == [t |-> "none"]
Jump(d) == [t |-> "jump", dest |-> d]
Brk(d)  == [t |-> "break", dest |-> d]
Leaf(d, e, f) == [t |-> "leaf", dest |-> d, e |-> e, fail |-> f]
Chunk(id, ret, stmts, br) == [id |-> id, ret |-> ret, stmts |-> stmts, br |-> br, useEnd |-> FALSE]

IsSimple(P, n) == P.N[n].k \in {"cmd", "label"}
IsTerm(P, n) == P.N[n].k = "cmd" /\ P.N[n].toks[1] \in {"end", "return"}

(* index (1-based) of the first statement that needs a split, Len+1 if none *)
RECURSIVE FirstComplex(_, _, _)
FirstComplex(P, ss, i) == IF i > Len(ss) THEN i
                          ELSE IF IsSimple(P, ss[i]) THEN FirstComplex(P, ss, i + 1) ELSE i

(* ---- splitBooleanExpressionChunks: returns [rem, cnt, link, first] ---- *)
RECURSIVE SplitBool(_, _, _, _, _, _, _)
SplitBool(P, e, cnt, succ, fail, rem, first) ==
    LET x == P.E[e] IN
    IF x.k = "leaf"
    THEN LET id == cnt + 1 IN
         [rem |-> Append(rem, Chunk(id, 0, <<>>, Leaf(succ, e, fail))), cnt |-> id, link |-> id,
          first |-> IF first = -1 THEN id ELSE first]
    ELSE LET mid == cnt + 1           \* the success (and) / failure (or) relay chunk
             l == IF x.k = "and" THEN SplitBool(P, x.l, mid, mid, fail, rem, first)
                                 ELSE SplitBool(P, x.l, mid, succ, mid, rem, first)
             r == SplitBool(P, x.r, l.cnt, succ, fail, l.rem, l.first)
         IN [rem |-> Append(r.rem, Chunk(mid, 0, <<>>, Jump(r.link))), cnt |-> r.cnt, link |-> l.link, first |-> r.first]

-----------------------------------------------------------------------------
VARIABLES P,        \* the source tables (constant per behaviour)
          name, glob, opt,
          rem,      \* worklist of chunks still to process (FIFO)
          fin,      \* finished chunks: id -> chunk
          cnt,      \* chunk counter
          bret,     \* loop / switch statement -> chunk after it     (break)
          borg,     \* loop statement -> chunk a continue goes to
          phase,    \* "split" | "bodies" | "labels" | "done"
          order,    \* the chunk ids in emission order
          bodies,   \* rendered body of each chunk, in that order
          jumped,   \* chunks some rendered jump refers to (they need a label)
          ri,       \* index into order while rendering
          asm       \* the rendered lines
lvars == <<P, name, glob, opt, rem, fin, cnt, bret, borg, phase, order, bodies, jumped, ri, asm>>

Cur == rem[1]
Rest == Tail(rem)
SS == Cur.stmts
I == FirstComplex(P, SS, 1)          \* 1-based index of the statement that splits the chunk
IsLast == I = Len(SS)
Before == SubSeq(SS, 1, I - 1)
After == SubSeq(SS, I + 1, Len(SS))

(* splitChunkForBranch: [rem, cnt, ret] *)
Split(r, c) == IF IsLast THEN [rem |-> r, cnt |-> c, ret |-> Cur.ret]
               ELSE [rem |-> Append(r, Chunk(c + 1, Cur.ret, After, NoBr)), cnt |-> c + 1, ret |-> c + 1]

Finalize(ch) == fin' = (ch.id :> ch) @@ fin

(* every statement of the chunk is a command or a label *)
ProcAllSimple ==
    /\ phase = "split" /\ rem # <<>> /\ I > Len(SS)
    /\ IF Len(SS) > 0 /\ IsTerm(P, SS[Len(SS)])
       THEN Finalize([Chunk(Cur.id, -1, SubSeq(SS, 1, Len(SS) - 1), NoBr) EXCEPT !.useEnd = P.N[SS[Len(SS)]].toks[1] = "end"])
       ELSE Finalize(Cur)
    /\ rem' = Rest /\ UNCHANGED <<P, name, glob, opt, cnt, bret, borg, phase, asm, order, bodies, jumped, ri>>

ProcIf ==
    /\ phase = "split" /\ rem # <<>> /\ I <= Len(SS) /\ P.N[SS[I]].k = "if"
    /\ LET st == P.N[SS[I]]
           sp == Split(Rest, cnt)
           narm == Len(st.arms)
           consId == sp.cnt + 1
           elifId(k) == sp.cnt + k                    \* arm k (k >= 2) is chunk sp.cnt + k
           elseId == IF st.els # 0 THEN sp.cnt + narm + 1 ELSE -1
           c1 == IF st.els # 0 THEN sp.cnt + narm + 1 ELSE sp.cnt + narm
           armChunks == [k \in 1..narm |-> Chunk(sp.cnt + k, sp.ret, BlockStmts(P, st.arms[k].body), NoBr)]
                     \o (IF st.els # 0 THEN <<Chunk(elseId, sp.ret, BlockStmts(P, st.els), NoBr)>> ELSE <<>>)
           r0 == sp.rem \o armChunks
           (* conditions of the elif arms, last first *)
           RECURSIVE Elifs(_, _, _, _)
           Elifs(k, r, c, prevEntry) ==
               IF k < 2 THEN [rem |-> r, cnt |-> c, entry |-> prevEntry]
               ELSE LET fail == IF k = narm THEN (IF st.els # 0 THEN elseId ELSE sp.ret) ELSE prevEntry
                        sb == SplitBool(P, st.arms[k].cond, c, elifId(k), fail, r, -1)
                    IN Elifs(k - 1, sb.rem, sb.cnt, sb.first)
           el == Elifs(narm, r0, c1, -1)
           fail1 == IF narm > 1 THEN el.entry ELSE IF st.els # 0 THEN elseId ELSE sp.ret
           sb1 == SplitBool(P, st.arms[1].cond, el.cnt, consId, fail1, el.rem, -1)
       IN /\ rem' = sb1.rem /\ cnt' = sb1.cnt
          /\ Finalize(Chunk(Cur.id, IF IsLast THEN Cur.ret ELSE sp.ret, Before, Jump(sb1.first)))
    /\ UNCHANGED <<P, name, glob, opt, bret, borg, phase, asm, order, bodies, jumped, ri>>

ProcLoop ==
    /\ phase = "split" /\ rem # <<>> /\ I <= Len(SS) /\ P.N[SS[I]].k \in {"while", "dowhile"}
    /\ LET st == P.N[SS[I]]
           sp == Split(Rest, cnt)
           hdr == sp.cnt + 1
           cons == sp.cnt + 2
           sb == IF st.cond = 0 THEN [rem |-> sp.rem, cnt |-> cons, first |-> cons]
                 ELSE SplitBool(P, st.cond, cons, cons, sp.ret, sp.rem, -1)
           entry == IF st.k = "while" THEN hdr ELSE cons
       IN /\ rem' = sb.rem \o <<Chunk(cons, hdr, BlockStmts(P, st.body), NoBr), Chunk(hdr, sp.ret, <<>>, Jump(sb.first))>>
          /\ cnt' = sb.cnt
          /\ Finalize(Chunk(Cur.id, IF IsLast THEN Cur.ret ELSE sp.ret, Before, Jump(entry)))
          /\ bret' = (SS[I] :> sp.ret) @@ bret
          /\ borg' = (SS[I] :> entry) @@ borg
    /\ UNCHANGED <<P, name, glob, opt, phase, asm, order, bodies, jumped, ri>>

RECURSIVE EnclosingIn(_, _, _)
EnclosingIn(Q, n, K) == LET o == Q.N[Q.N[n].par].par IN
                        IF o = 0 THEN 0 ELSE IF Q.N[o].k \in K THEN o ELSE EnclosingIn(Q, o, K)

ProcBreakContinue ==
    /\ phase = "split" /\ rem # <<>> /\ I <= Len(SS) /\ P.N[SS[I]].k \in {"break", "continue"}
    /\ LET n == SS[I]
           dest == IF P.N[n].k = "break" THEN bret[EnclosingIn(P, n, {"while", "dowhile", "switch"})]
                                         ELSE borg[EnclosingIn(P, n, {"while", "dowhile"})]
       IN /\ Finalize(Chunk(Cur.id, Cur.ret, Before, Brk(dest)))
          /\ IF IsLast THEN rem' = Rest /\ cnt' = cnt
             ELSE rem' = Append(Rest, Chunk(cnt + 1, Cur.ret, After, NoBr)) /\ cnt' = cnt + 1
    /\ UNCHANGED <<P, name, glob, opt, bret, borg, phase, asm, order, bodies, jumped, ri>>

(* createSwitchStatementChunks *)
ProcSwitch ==
    /\ phase = "split" /\ rem # <<>> /\ I <= Len(SS) /\ P.N[SS[I]].k = "switch"
    /\ LET st == P.N[SS[I]]
           sp == Split(Rest, cnt)
           swId == sp.cnt + 1
           cs == st.cases
           nc == Len(cs)
           Body(j) == BlockStmts(P, cs[j].body)
           (* first j' > j with a body, 0 if none *)
           RECURSIVE NextBodied(_)
           NextBodied(j) == IF j > nc THEN 0 ELSE IF cs[j].n > 0 THEN j ELSE NextBodied(j + 1)
           (* the scan over the cases: state [i, rem, cnt, cases (seq of [val, dest]), def (dest or -2), empty (id or -1), elide] *)
           RECURSIVE Scan(_)
           Scan(s) ==
               IF s.i > nc \/ s.elide THEN s
               ELSE IF cs[s.i].n > 0
               THEN LET id == s.cnt + 1 IN
                    Scan([s EXCEPT !.i = s.i + 1, !.cnt = id,
                                   !.rem = Append(s.rem, Chunk(id, sp.ret, Body(s.i), NoBr)),
                                   !.def = IF cs[s.i].isdef THEN id ELSE s.def,
                                   !.cases = IF cs[s.i].isdef THEN s.cases ELSE Append(s.cases, [valtoks |-> cs[s.i].valtoks, dest |-> id])])
               ELSE LET j == NextBodied(s.i + 1) IN
                    IF j # 0
                    THEN (* the body of case j is shared by the body-less cases s.i .. j-1 and by j itself *)
                         LET id == s.cnt + 1
                             newCases == SelectSeq([k \in 1..(j - s.i + 1) |-> [valtoks |-> cs[s.i + k - 1].valtoks, dest |-> id, isdef |-> cs[s.i + k - 1].isdef]],
                                                   LAMBDA c : ~c.isdef)
                             anyDef == \E k \in s.i..j : cs[k].isdef
                         IN Scan([s EXCEPT !.i = j + 1, !.cnt = id,
                                           !.rem = Append(s.rem, Chunk(id, sp.ret, Body(j), NoBr)),
                                           !.def = IF anyDef THEN id ELSE s.def,
                                           !.cases = s.cases \o [k \in 1..Len(newCases) |-> [valtoks |-> newCases[k].valtoks, dest |-> newCases[k].dest]]])
                    ELSE (* trailing body-less cases *)
                         IF s.def = -2
                         THEN IF s.cases = <<>> THEN [s EXCEPT !.elide = TRUE]
                              ELSE Scan([s EXCEPT !.i = s.i + 1])
                         ELSE IF cs[s.i].isdef THEN Scan([s EXCEPT !.i = s.i + 1])
                         ELSE LET eid == IF s.empty = -1 THEN s.cnt + 1 ELSE s.empty
                                  r2 == IF s.empty = -1 THEN Append(s.rem, Chunk(eid, sp.ret, <<>>, NoBr)) ELSE s.rem
                              IN Scan([s EXCEPT !.i = s.i + 1, !.cnt = IF s.empty = -1 THEN eid ELSE s.cnt, !.rem = r2, !.empty = eid,
                                                !.cases = Append(s.cases, [valtoks |-> cs[s.i].valtoks, dest |-> eid])])
           r0 == Append(sp.rem, Chunk(swId, sp.ret, <<>>, NoBr))          \* the switch chunk is queued first
           sc == Scan([i |-> 1, rem |-> r0, cnt |-> swId, cases |-> <<>>, def |-> -2, empty |-> -1, elide |-> FALSE])
           br == [t |-> "switch", opndtoks |-> st.vtoks, cases |-> sc.cases, def |-> sc.def,
                  dest |-> IF sc.def = -2 THEN sp.ret ELSE 0]
           (* the switch chunk record sits in the worklist; give it its branch behaviour there *)
           patched == [k \in 1..Len(sc.rem) |-> IF sc.rem[k].id = swId /\ ~sc.elide THEN [sc.rem[k] EXCEPT !.br = br] ELSE sc.rem[k]]
       IN /\ rem' = patched /\ cnt' = sc.cnt
          /\ Finalize(Chunk(Cur.id, IF IsLast THEN Cur.ret ELSE sp.ret, Before, Jump(swId)))
          /\ bret' = (SS[I] :> sp.ret) @@ bret
          /\ borg' = (SS[I] :> swId) @@ borg
    /\ UNCHANGED <<P, name, glob, opt, phase, asm, order, bodies, jumped, ri>>

-----------------------------------------------------------------------------
(* ---- ordering and rendering ---- *)
TailOf(ch) == CASE ch.br.t = "none" -> ch.ret
                [] ch.br.t \in {"jump", "break"} -> ch.br.dest
                [] ch.br.t = "leaf" -> ch.br.fail
                [] ch.br.t = "switch" -> IF ch.br.def # -2 THEN ch.br.def ELSE ch.br.dest

Ids == DOMAIN fin
SortedIds == LET RECURSIVE Srt(_)
                 Srt(S) == IF S = {} THEN <<>> ELSE LET m == CHOOSE x \in S : \A y \in S : x <= y IN <<m>> \o Srt(S \ {m})
             IN Srt(Ids)

(* optimizeChunkOrder: follow tails greedily; otherwise the lowest unvisited id at or above the scan position *)
RECURSIVE OptOrder(_, _, _)
OptOrder(ord, unv, i) ==
    IF unv = {} THEN ord
    ELSE LET nxt == TailOf(fin[ord[Len(ord)]]) IN
         IF nxt # -1 /\ nxt \in unv THEN OptOrder(Append(ord, nxt), unv \ {nxt}, i)
         ELSE LET cand == {c \in unv : c >= i} IN
              IF cand = {} THEN ord         \* (the implementation would spin here: ids are dense, so it cannot happen)
              ELSE LET m == CHOOSE x \in cand : \A y \in cand : x <= y IN OptOrder(Append(ord, m), unv \ {m}, m)

Order == IF opt THEN OptOrder(<<0>>, Ids \ {0}, 1) ELSE SortedIds

Lab(id) == IF id = 0 THEN name ELSE name \o "_" \o ToString(id)
(* A line carries its tokens (compared with the real output by LoweringConform) and the  *)
(* structure ScriptVM reads (op, operands a, jump target tgt, gen = compiler-made jump,  *)
(* role of a label), used by LoweringRefine.                                            *)
InsX(toks, a, tgt, gen) == [k |-> "ins", toks |-> toks, op |-> toks[1], a |-> a, tgt |-> tgt, gen |-> gen]
Ins(toks) == InsX(toks, <<>>, "", FALSE)
LabelLine(n, g, role) == [k |-> "label", name |-> n, g |-> g, role |-> role]
Goto(id) == InsX(<<"goto", Lab(id)>>, <<Lab(id)>>, Lab(id), TRUE)

RECURSIVE JoinToks(_)
JoinToks(ts) == IF ts = <<>> THEN "" ELSE IF Len(ts) = 1 THEN ts[1] ELSE ts[1] \o " " \o JoinToks(Tail(ts))

StmtLine(n) ==
    IF P.N[n].k = "label" THEN LabelLine(P.N[n].name, P.N[n].g, "user")
    ELSE LET t == P.N[n].toks IN
         IF t[1] = "goto" /\ Len(t) = 2 THEN InsX(t, <<t[2]>>, t[2], FALSE) ELSE Ins(t)

CondOp(op) == CASE op = "==" -> "goto_if_eq" [] op = "!=" -> "goto_if_ne" [] op = "<" -> "goto_if_lt"
                [] op = "<=" -> "goto_if_le" [] op = ">" -> "goto_if_gt" [] op = ">=" -> "goto_if_ge"

LeafLines(e, dest) ==
    LET x == P.E[e]
        pre == IF x.typ = "auto" THEN <<Ins(x.toks)>> ELSE <<>>
        setLike == (x.op = "==" /\ x.val \in {"TRUE", "true"}) \/ (x.op = "!=" /\ x.val \in {"FALSE", "false"})
        opnd == JoinToks(x.opndtoks)
        L == Lab(dest)
    IN pre \o
       (CASE x.typ = "flag" -> <<InsX(<<IF setLike THEN "goto_if_set" ELSE "goto_if_unset">> \o x.opndtoks \o <<",", L>>, <<opnd, L>>, L, TRUE)>>
          [] x.typ = "defeated" -> <<InsX(<<"checktrainerflag">> \o x.opndtoks, <<opnd>>, "", FALSE),
                                     InsX(<<"goto_if", IF setLike THEN "1" ELSE "0", ",", L>>, <<IF setLike THEN "1" ELSE "0", L>>, L, TRUE)>>
          [] OTHER -> <<InsX(<<IF x.strict THEN "compare_var_to_value" ELSE "compare">> \o x.opndtoks \o <<",">> \o x.rawvaltoks,
                             <<opnd, JoinToks(x.rawvaltoks)>>, "", FALSE),
                        InsX(<<CondOp(x.op), L>>, <<L>>, L, TRUE)>>)

(* lines of one chunk's branching and the chunks it jumps to: [lines, jumps] *)
Branching(ch, next) ==
    LET FallOrGoto(d) == IF d = -1 THEN [lines |-> <<Ins(<<"return">>)>>, jumps |-> {}]
                         ELSE IF d # next THEN [lines |-> <<Goto(d)>>, jumps |-> {d}]
                         ELSE [lines |-> <<>>, jumps |-> {}]
    IN CASE ch.br.t = "none" ->
              (IF ch.ret = -1 THEN [lines |-> <<Ins(<<IF ch.useEnd THEN "end" ELSE "return">>)>>, jumps |-> {}]
               ELSE FallOrGoto(ch.ret))
         [] ch.br.t = "jump" -> (IF ch.br.dest # next THEN [lines |-> <<Goto(ch.br.dest)>>, jumps |-> {ch.br.dest}]
                                 ELSE [lines |-> <<>>, jumps |-> {}])
         [] ch.br.t = "break" -> FallOrGoto(ch.br.dest)
         [] ch.br.t = "leaf" -> (LET f == FallOrGoto(ch.br.fail) IN
                                 [lines |-> LeafLines(ch.br.e, ch.br.dest) \o f.lines, jumps |-> {ch.br.dest} \cup f.jumps])
         [] ch.br.t = "switch" ->
              (LET hd == <<InsX(<<"switch">> \o ch.br.opndtoks, <<JoinToks(ch.br.opndtoks)>>, "", FALSE)>>
                        \o [k \in 1..Len(ch.br.cases) |->
                              InsX(<<"case">> \o ch.br.cases[k].valtoks \o <<",", Lab(ch.br.cases[k].dest)>>,
                                   <<JoinToks(ch.br.cases[k].valtoks), Lab(ch.br.cases[k].dest)>>, Lab(ch.br.cases[k].dest), TRUE)]
                   cj == {ch.br.cases[k].dest : k \in 1..Len(ch.br.cases)}
                   tl == IF ch.br.def # -2
                         THEN (IF ch.br.def # next THEN [lines |-> <<Goto(ch.br.def)>>, jumps |-> {ch.br.def}] ELSE [lines |-> <<>>, jumps |-> {}])
                         ELSE (IF ch.br.dest # next THEN FallOrGoto(ch.br.dest) ELSE [lines |-> <<>>, jumps |-> {}])
               IN [lines |-> hd \o tl.lines, jumps |-> cj \cup tl.jumps])

(* renderChunks, as in the implementation: first the order, then the body of every chunk   *)
(* (recording which chunks are jumped to), then the labels that are needed + the bodies.   *)
ComputeOrder ==
    /\ phase = "split" /\ rem = <<>>
    /\ order' = Order /\ phase' = "bodies" /\ ri' = 1
    /\ UNCHANGED <<P, name, glob, opt, rem, fin, cnt, bret, borg, asm, bodies, jumped>>

RenderBody ==
    /\ phase = "bodies" /\ ri <= Len(order)
    /\ LET ch == fin[order[ri]]
           b == Branching(ch, IF ri < Len(order) THEN order[ri + 1] ELSE -1)
       IN /\ bodies' = Append(bodies, [j \in 1..Len(ch.stmts) |-> StmtLine(ch.stmts[j])] \o b.lines)
          /\ jumped' = jumped \cup b.jumps
    /\ ri' = ri + 1
    /\ UNCHANGED <<P, name, glob, opt, rem, fin, cnt, bret, borg, phase, asm, order>>

StartLabels ==
    /\ phase = "bodies" /\ ri > Len(order)
    /\ phase' = "labels" /\ ri' = 1
    /\ UNCHANGED <<P, name, glob, opt, rem, fin, cnt, bret, borg, asm, order, bodies, jumped>>

RenderLabel ==
    /\ phase = "labels" /\ ri <= Len(order)
    /\ LET id == order[ri] IN
       asm' = asm \o (IF id = 0 \/ id \in jumped
                       THEN <<LabelLine(Lab(id), id = 0 /\ glob, IF id = 0 THEN "entry" ELSE "sub")>> ELSE <<>>) \o bodies[ri]
    /\ ri' = ri + 1
    /\ UNCHANGED <<P, name, glob, opt, rem, fin, cnt, bret, borg, phase, order, bodies, jumped>>

Finish ==
    /\ phase = "labels" /\ ri > Len(order)
    /\ phase' = "done"
    /\ UNCHANGED <<P, name, glob, opt, rem, fin, cnt, bret, borg, asm, order, bodies, jumped, ri>>

LInit(prog, scriptName, root, isGlobal, optimize) ==
    /\ P = prog /\ name = scriptName /\ glob = isGlobal /\ opt = optimize
    /\ rem = <<Chunk(0, -1, BlockStmts(prog, root), NoBr)>>
    /\ fin = <<>> /\ cnt = 0 /\ bret = <<>> /\ borg = <<>>
    /\ phase = "split" /\ asm = <<>>
    /\ order = <<>> /\ bodies = <<>> /\ jumped = {} /\ ri = 0

LNext == ProcAllSimple \/ ProcIf \/ ProcLoop \/ ProcBreakContinue \/ ProcSwitch
         \/ ComputeOrder \/ RenderBody \/ StartLabels \/ RenderLabel \/ Finish
=============================================================================
