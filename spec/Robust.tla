-------------------------------- MODULE Robust ------------------------------
(***************************************************************************)
(* C18: every input is answered with output or a located error.            *)
(* Each case is the outcome of the REAL compiler on one input text (valid  *)
(* UTF-8) under one option set, in normal and in lint mode:                *)
(*   kind   "out" | "err" | "panic" | "timeout" | "blowup"                 *)
(*   sl, el start / end line of the error; located: the error value is a   *)
(*          parse error carrying positions; env: the message blames        *)
(*          missing switches or fonts                                      *)
(* Identical outcome tuples are sent once, with the number of inputs that  *)
(* produced them.                                                          *)
(***************************************************************************)
EXTENDS Naturals, Sequences, TLC, Json

Cases == ndJsonDeserialize("outcomes.ndjson")
VARIABLE ci

Answered(o) == o.kind \in {"out", "err"}
Located(o, nlines) == o.kind = "err" => o.located /\ 1 <= o.sl /\ o.sl <= o.el /\ o.el <= nlines + 1

Holds(c) ==
    /\ Answered(c.normal) /\ Answered(c.lint)
    /\ Located(c.normal, c.nlines) /\ Located(c.lint, c.nlines)
    /\ (c.normal.kind = "out" => c.lint.kind = "out")      \* lint accepts what normal mode accepts
    /\ ~c.lint.env                                          \* lint never fails for lack of switches / fonts

Why(c) == (IF Answered(c.normal) /\ Answered(c.lint) THEN {} ELSE {"not answered"})
          \cup (IF Located(c.normal, c.nlines) /\ Located(c.lint, c.nlines) THEN {} ELSE {"error not located inside the input"})
          \cup (IF c.normal.kind = "out" => c.lint.kind = "out" THEN {} ELSE {"lint rejects what normal mode accepts"})
          \cup (IF c.lint.env THEN {"lint fails for lack of switches or fonts"} ELSE {})

Init == ci \in 1..Len(Cases)
Next == UNCHANGED ci
Spec == Init /\ [][Next]_ci
Report == ~Holds(Cases[ci]) => PrintT(<<"DIVERGED", ci, Cases[ci].id, Why(Cases[ci])>>)
=============================================================================
