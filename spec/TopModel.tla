------------------------------ MODULE TopModel ------------------------------
(***************************************************************************)
(* The top level of a file as the parser reads it (parser.ParseProgram /   *)
(* parseTopLevelStatement / parseScopeModifier / parseScriptStatement /    *)
(* parseRawStatement / parseTextStatement / parseMovementStatement /       *)
(* parseMartStatement / parseConstant) and the labels the emitter writes   *)
(* for it: a file is a sequence of statements, each opened by its keyword; *)
(* script, text, movement and mart take an optional "( global | local )",  *)
(* a name and a braced body; the default scope is global for script and    *)
(* text, local for movement and mart; raw takes one raw string; const      *)
(* takes a fresh name, "=" and every token up to the next top-level        *)
(* keyword (at least one).  After the last statement: two text statements  *)
(* or two movement statements of one name are an error (two scripts, or a  *)
(* script and a mart, are not).  The output defines, in this order, the    *)
(* labels of the non-text statements in source order and then those of the *)
(* text statements, "name::" when global and "name:" when local.           *)
(* A model of the implementation; TopAll binds it to the real compiler.    *)
(* Script bodies are those of CmdModel (commands and their argument lists; *)
(* no text inside them here).                                              *)
(***************************************************************************)
EXTENDS CmdModel

TopKw == {"script", "raw", "text", "movement", "mart", "mapscripts", "const"}
TErr == [err |-> TRUE, labels |-> <<>>]

(* optional scope modifier after the keyword at i: <<ok, scope, next>> *)
Scope(toks, i, dflt) ==
    IF At(toks, i + 1) # "(" THEN <<TRUE, dflt, i + 1>>
    ELSE IF At(toks, i + 2) \notin {"global", "local"} THEN <<FALSE, dflt, i>>
    ELSE IF At(toks, i + 3) # ")" THEN <<FALSE, dflt, i>>
    ELSE <<TRUE, At(toks, i + 2), i + 4>>

(* script body from j (the token after "{"): the index of the closing brace, 0 on error *)
RECURSIVE ScriptBody(_, _)
ScriptBody(toks, j) ==
    LET t == At(toks, j) IN
    IF t = "}" THEN j
    ELSE IF t \notin Idents THEN 0
    ELSE IF At(toks, j + 1) = "("
         THEN LET r == Args(toks, j + 2, 0, <<>>, <<>>) IN IF r.err THEN 0 ELSE ScriptBody(toks, r.next)
         ELSE ScriptBody(toks, j + 1)

(* movement steps / mart items from j: identifiers up to the closing brace *)
RECURSIVE ListBody(_, _)
ListBody(toks, j) ==
    LET t == At(toks, j) IN
    IF t = "}" THEN j ELSE IF t \in Idents THEN ListBody(toks, j + 1) ELSE 0

(* the const's value: tokens after "=" (at j - 1) while the next one is no top-level keyword *)
RECURSIVE ConstEnd(_, _)
ConstEnd(toks, j) == IF j > Len(toks) \/ toks[j] \in TopKw THEN j ELSE ConstEnd(toks, j + 1)

Lab(name, scope) == name \o (IF scope = "global" THEN "::" ELSE ":")

RECURSIVE HasDup(_)
HasDup(s) == IF Len(s) < 2 THEN FALSE
             ELSE (\E k \in 2..Len(s) : s[k] = s[1]) \/ HasDup(Tail(s))

RECURSIVE Top(_, _, _, _, _, _, _)
Top(toks, i, labs, texts, textNames, moveNames, consts) ==
    IF i > Len(toks)
    THEN IF HasDup(textNames) \/ HasDup(moveNames) THEN TErr
         ELSE [err |-> FALSE, labels |-> labs \o texts]
    ELSE LET kw == toks[i] IN
      IF kw = "raw"
      THEN IF At(toks, i + 1) = "r" THEN Top(toks, i + 2, labs, texts, textNames, moveNames, consts) ELSE TErr
      ELSE IF kw = "const"
      THEN IF At(toks, i + 1) \notin Idents \/ At(toks, i + 1) \in consts \/ At(toks, i + 2) # "=" THEN TErr
           ELSE LET e == ConstEnd(toks, i + 3) IN
                IF e = i + 3 THEN TErr
                ELSE Top(toks, e, labs, texts, textNames, moveNames, consts \cup {toks[i + 1]})
      ELSE IF kw \in {"script", "text", "movement", "mart"}
      THEN LET sc == Scope(toks, i, IF kw \in {"script", "text"} THEN "global" ELSE "local")
               j == sc[3]
               name == At(toks, j)
           IN IF ~sc[1] \/ name \notin Idents \/ At(toks, j + 1) # "{" THEN TErr
              ELSE IF kw = "script"
                   THEN LET e == ScriptBody(toks, j + 2) IN
                        IF e = 0 THEN TErr
                        ELSE Top(toks, e + 1, Append(labs, Lab(name, sc[2])), texts, textNames, moveNames, consts)
              ELSE IF kw = "text"
                   THEN IF At(toks, j + 2) = "s" /\ At(toks, j + 3) = "}"
                        THEN Top(toks, j + 4, labs, Append(texts, Lab(name, sc[2])), Append(textNames, name), moveNames, consts)
                        ELSE TErr
              ELSE LET e == ListBody(toks, j + 2) IN
                   IF e = 0 THEN TErr
                   ELSE Top(toks, e + 1, Append(labs, Lab(name, sc[2])), texts, textNames,
                            IF kw = "movement" THEN Append(moveNames, name) ELSE moveNames, consts)
      ELSE TErr

File(toks) == Top(toks, 1, <<>>, <<>>, <<>>, <<>>, {})
=============================================================================
