------------------------------- MODULE StmtAll -------------------------------
(***************************************************************************)
(* StmtModel against the REAL compiler on every macro-token string of      *)
(* GenChars: the same accept / reject.                                     *)
(***************************************************************************)
EXTENDS StmtModel, Json
Cases0 == ndJsonDeserialize("stmtall.ndjson")
VARIABLE ci
Init == ci \in 1..Len(Cases0)
Next == UNCHANGED ci
Spec == Init /\ [][Next]_ci
Conform(c) == Accepts(c.toks) = ~c.err
Report == ~Conform(Cases0[ci]) => PrintT(<<"DIVERGED", ci, Cases0[ci].id, "conformance", Accepts(Cases0[ci].toks)>>)
=============================================================================
