SPECIFICATION Spec
INVARIANT Report
INVARIANT ReportRunOff
CHECK_DEADLOCK FALSE
