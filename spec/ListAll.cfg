SPECIFICATION Spec
INVARIANT Report
CHECK_DEADLOCK FALSE
