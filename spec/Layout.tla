------------------------------- MODULE Layout -------------------------------
(***************************************************************************)
(* The order of the blocks of an output file, as the emitter produces it   *)
(* (no listed property depends on it; C17 compares blocks in a canonical   *)
(* order for that reason):                                                 *)
(*   1. every top-level statement that is not a text, in source order,     *)
(*   2. the hoisted movements, in order of allocation,                     *)
(*   3. the hoisted texts, in order of allocation,                         *)
(*   4. the text statements, in source order.                              *)
(* Allocation order = order of first appearance of the label among the     *)
(* inline occurrences in source order (the labels are the ones found in    *)
(* the real output at those arguments; HoistTrace validates them).         *)
(* c.tops: [k, name] of the named statements in source order; c.occ:       *)
(* [kind, label] per inline occurrence; c.observed: the labels of c.tops   *)
(* and of the hoisted data in the order they are defined in the output.    *)
(***************************************************************************)
EXTENDS Naturals, Sequences, TLC, Json

Cases == ndJsonDeserialize("layout.ndjson")
VARIABLE ci

RECURSIVE FirstSeen(_, _, _)
FirstSeen(occ, kind, acc) ==
    IF occ = <<>> THEN acc
    ELSE LET o == Head(occ)
             seen == \E i \in 1..Len(acc) : acc[i] = o.label
         IN FirstSeen(Tail(occ), kind, IF o.kind = kind /\ ~seen THEN Append(acc, o.label) ELSE acc)

Names(tops, isText) == LET sel == SelectSeq(tops, LAMBDA t : (t.k = "text") = isText)
                       IN [i \in 1..Len(sel) |-> sel[i].name]

Expected(c) == Names(c.tops, FALSE) \o FirstSeen(c.occ, "moves", <<>>) \o FirstSeen(c.occ, "text", <<>>) \o Names(c.tops, TRUE)
Holds(c) == c.observed = Expected(c)

Init == ci \in 1..Len(Cases)
Next == UNCHANGED ci
Spec == Init /\ [][Next]_ci
Report == ~Holds(Cases[ci]) => PrintT(<<"DIVERGED", ci, Cases[ci].id, Expected(Cases[ci])>>)
=============================================================================
