------------------------------ MODULE HoistInd ------------------------------
(***************************************************************************)
(* The hoisting table of Hoist.tla with labels kept as tuples              *)
(* <<script, kind, n>> instead of rendered strings, and an inductive       *)
(* invariant for Apalache: Init => IndInv and IndInv /\ Next => IndInv',   *)
(* i.e. the invariants of Hoist.tla hold after ANY number of occurrences   *)
(* (Hoist.cfg explores runs with at most 5 definitions).                   *)
(***************************************************************************)
EXTENDS Integers, Sequences, FiniteSets, Apalache

CONSTANTS
    \* @type: Set(Str);
    Scripts,
    \* @type: Set(Str);
    Contents,
    \* @type: Set(Str);
    Types

Kinds == {"text", "moves"}

\* @type: (Str, Str, Str) => <<Str, Str, Str>>;
K3(a, b, c) == <<a, b, c>>
\* @type: (Str, Str, Int) => <<Str, Str, Int>>;
L3(a, b, n) == <<a, b, n>>
\* @type: (Str, Str) => <<Str, Str>>;
C2(a, b) == <<a, b>>

VARIABLES
    \* @type: <<Str, Str, Str>> -> <<Str, Str, Int>>;
    table,
    \* @type: <<Str, Str>> -> Int;
    count,
    \* @type: Seq({name: <<Str, Str, Int>>, key: <<Str, Str, Str>>});
    defs

\* constants: CInit as in Hoist.cfg (12 keys), CInitSmall (8 keys) for the quick run
CInit ==
    /\ Scripts = {"A", "B"}
    /\ Contents = {"x", "y", "z"}
    /\ Types = {"", "ascii"}
CInitSmall ==
    /\ Scripts = {"A", "B"}
    /\ Contents = {"x", "y"}
    /\ Types = {"", "ascii"}

Keys == Kinds \X (Types \cup {""}) \X Contents

Init ==
    /\ table = [k \in {} |-> L3("", "", 0)]
    /\ count = [c \in Scripts \X Kinds |-> 0]
    /\ defs = <<>>

\* @type: (Str, Str, Str, Str) => Bool;
Occur(script, kind, content, typ) ==
    LET key == K3(kind, typ, content) IN
    IF key \in DOMAIN table THEN UNCHANGED <<table, count, defs>>
    ELSE LET lab == L3(script, kind, count[C2(script, kind)]) IN
         /\ table' = [k \in DOMAIN table \cup {key} |-> IF k = key THEN lab ELSE table[k]]
         /\ count' = [count EXCEPT ![C2(script, kind)] = @ + 1]
         /\ defs' = Append(defs, [name |-> lab, key |-> key])

Next == \E s \in Scripts, k \in Kinds, c \in Contents, t \in Types :
            Occur(s, k, c, IF k = "moves" THEN "" ELSE t)

\* ---- the invariants of Hoist.tla ----
Bijection == \A k1, k2 \in DOMAIN table : table[k1] = table[k2] => k1 = k2
DistinctDefs == \A i, j \in DOMAIN defs : defs[i].name = defs[j].name => i = j
\* numbering per (script, kind): no gaps, in order of first appearance
GapFree ==
    \* every allocated number has its predecessor, and the newest number of each (script, kind) is count - 1:
    \* by induction on n, exactly the numbers 0 .. count-1 are in use
    /\ \A key \in DOMAIN table : table[key][3] > 0 =>
          \E key2 \in DOMAIN table : table[key2] = L3(table[key][1], table[key][2], table[key][3] - 1)
    /\ \A s \in Scripts, k \in Kinds : count[C2(s, k)] > 0 =>
          \E key \in DOMAIN table : table[key] = L3(s, k, count[C2(s, k)] - 1)
    /\ \A i, j \in DOMAIN defs :
          (i < j /\ defs[i].name[1] = defs[j].name[1] /\ defs[i].name[2] = defs[j].name[2])
              => defs[i].name[3] < defs[j].name[3]

\* ---- strengthening ----
Shape ==
    /\ DOMAIN table \subseteq Keys
    /\ DOMAIN count = Scripts \X Kinds
    /\ \A c \in DOMAIN count : count[c] >= 0
    /\ \A key \in DOMAIN table :
          /\ table[key][1] \in Scripts
          /\ table[key][2] = key[1]
          /\ table[key][3] >= 0
          /\ table[key][3] < count[C2(table[key][1], key[1])]
Mirror ==
    /\ \A i \in DOMAIN defs : defs[i].key \in DOMAIN table /\ table[defs[i].key] = defs[i].name
    /\ \A key \in DOMAIN table : \E i \in DOMAIN defs : defs[i].key = key

IndInv == Shape /\ Mirror /\ Bijection /\ DistinctDefs /\ GapFree

S1 == DOMAIN table \subseteq Keys
S2 == DOMAIN count = Scripts \X Kinds
S3 == \A c \in DOMAIN count : count[c] >= 0
S5 == \A key \in DOMAIN table :
          /\ table[key][1] \in Scripts
          /\ table[key][2] = key[1]
          /\ table[key][3] >= 0
          /\ table[key][3] < count[C2(table[key][1], key[1])]
M1 == \A i \in DOMAIN defs : defs[i].key \in DOMAIN table /\ table[defs[i].key] = defs[i].name
M2 == \A key \in DOMAIN table : \E i \in DOMAIN defs : defs[i].key = key
G1 == \A key \in DOMAIN table : table[key][3] > 0 =>
          \E key2 \in DOMAIN table : table[key2] = L3(table[key][1], table[key][2], table[key][3] - 1)
G1b == \A s \in Scripts, k \in Kinds : count[C2(s, k)] > 0 =>
          \E key \in DOMAIN table : table[key] = L3(s, k, count[C2(s, k)] - 1)
G2 == \A i, j \in DOMAIN defs :
          (i < j /\ defs[i].name[1] = defs[j].name[1] /\ defs[i].name[2] = defs[j].name[2])
              => defs[i].name[3] < defs[j].name[3]

\* any state satisfying IndInv (counters are unbounded integers; the table has at most as many
\* entries as there are keys)
IndInit ==
    /\ table = Gen(12)
    /\ count = Gen(4)
    /\ defs = Gen(12)
    /\ IndInv
IndInitSmall ==
    /\ table = Gen(8)
    /\ count = Gen(4)
    /\ defs = Gen(8)
    /\ IndInv
=============================================================================
