------------------------------- MODULE SameOut ------------------------------
(***************************************************************************)
(* Two real compilations that must agree: both rejected, or both accepted  *)
(* with identical output lines.  Used for layout independence (C19),       *)
(* line-marker transparency (C16) and determinism / independence (C17).    *)
(***************************************************************************)
EXTENDS Naturals, Sequences, TLC, Json
Cases == ndJsonDeserialize("same.ndjson")
VARIABLE ci
Holds(c) == c.err1 = c.err2 /\ c.out1 = c.out2
Init == ci \in 1..Len(Cases)
Next == UNCHANGED ci
Spec == Init /\ [][Next]_ci
Report == ~Holds(Cases[ci]) => PrintT(<<"DIVERGED", ci, Cases[ci].id>>)
=============================================================================
