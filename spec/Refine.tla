------------------------------- MODULE Refine -------------------------------
(***************************************************************************)
(* Synchronous product of the reference semantics (PoryLang) of a source   *)
(* program with the target semantics (ScriptVM) of the assembly THE REAL   *)
(* COMPILER produced for it.  TLC explores every game-state oracle.        *)
(*                                                                         *)
(* Game state is arbitrary but only changes when a command runs: both      *)
(* sides read through a MEMO (location -> answer) that is cleared by every *)
(* command.  The first reader of a location chooses the answer (TLC        *)
(* branches); later readers of the same location, on either side, get the  *)
(* same answer until the next command.                                     *)
(*                                                                         *)
(* Cases (one per compiled program and option set) are loaded from         *)
(* cases.ndjson; Init picks one, and one entry of it (the script's entry   *)
(* label or a user label).                                                 *)
(***************************************************************************)
EXTENDS Naturals, Sequences, FiniteSets, TLC, Json, PoryLang, ScriptVM, Emission

Cases == ndJsonDeserialize("cases.ndjson")

VARIABLES ci,       \* case index
          s,        \* source control point
          v,        \* VM state
          memo,     \* location -> answer since the last command
          ss, vs,   \* points each side left since the memo last changed
          verdict   \* "run" | "ok" | "diverged"
vars == <<ci, s, v, memo, ss, vs, verdict>>

P == Cases[ci]          \* the source tables (fields N, E, ulab, sroot)
A == Cases[ci]          \* the target (fields asm, lab)

Prefix(str, p) == Len(str) >= Len(p) /\ SubSeq(str, 1, Len(p)) = p

SwitchDom(var) == SwitchValues(P, var) \cup VSwitchValues(A, var) \cup {"@other"}

Dom(loc) ==
    IF Prefix(loc, "sw:") THEN SwitchDom(SubSeq(loc, 4, Len(loc)))
    ELSE IF Prefix(loc, "cmp:") \/ Prefix(loc, "cmpv:") THEN {"lt", "eq", "gt"}
    ELSE {"T", "F"}

Init ==
    /\ ci \in 1..Len(Cases)
    /\ \E i \in 1..Len(Cases[ci].entries) :
         LET en == Cases[ci].entries[i] IN
         /\ s = EntryPoint(Cases[ci], en.node)
         /\ v = IF en.label \in DOMAIN Cases[ci].lab
                THEN VGo(Cases[ci], VInit(Cases[ci].lab[en.label]), {})
                ELSE VFinish(VInit(0), "noentry:" \o en.label)
    /\ memo = <<>>
    /\ ss = {} /\ vs = {}
    /\ verdict = "run"

SrcRead ==
    /\ verdict = "run"
    /\ SLoc(P, s) # ""
    /\ UNCHANGED <<ci, v, verdict>>
    /\ IF SLoc(P, s) \in DOMAIN memo
       THEN /\ UNCHANGED <<memo, vs>>
            /\ IF s \in ss THEN s' = Done("diverge") /\ UNCHANGED ss   \* read-only cycle
               ELSE s' = SStep(P, s, memo[SLoc(P, s)]) /\ ss' = ss \cup {s}
       ELSE \E a \in Dom(SLoc(P, s)) :
               /\ memo' = (SLoc(P, s) :> a) @@ memo
               /\ s' = SStep(P, s, a)
               /\ ss' = {} /\ vs' = {}

VMRead ==
    /\ verdict = "run"
    /\ SLoc(P, s) = ""
    /\ VLoc(A, v) # ""
    /\ UNCHANGED <<ci, s, verdict>>
    /\ IF VLoc(A, v) \in DOMAIN memo
       THEN /\ UNCHANGED <<memo, ss>>
            /\ IF v \in vs THEN v' = VFinish(v, "diverge") /\ UNCHANGED vs
               ELSE v' = VStep(A, v, memo[VLoc(A, v)]) /\ vs' = vs \cup {v}
       ELSE \E a \in Dom(VLoc(A, v)) :
               /\ memo' = (VLoc(A, v) :> a) @@ memo
               /\ v' = VStep(A, v, a)
               /\ ss' = {} /\ vs' = {}

(* Inline data.  A source token "@data:<k>" stands for the inline text or moves() written   *)
(* at that argument (P.sdata); it agrees with a target token that names a label whose       *)
(* definition in the real output (A.vdefs) is what Emission says that text / list becomes.  *)
DataMatches(d, def) ==
    IF d.kind = "text"
    THEN def.kind = "text" /\ def.dir = Directive(d.type) /\ def.lines = ExpectedTextLines(d.parts, d.type)
    ELSE d.kind = "moves" /\ def.kind = "moves" /\ def.rle = ExpectedList(d.items, "step_end")
TokMatch(a, b) ==
    \/ a = b
    \/ a \in DOMAIN P.sdata /\ b \in DOMAIN A.vdefs /\ DataMatches(P.sdata[a], A.vdefs[b])
ObsEq(so, vo) ==
    IF so.k = "cmd" /\ vo.k = "cmd"
    THEN Len(so.toks) = Len(vo.toks) /\ \A i \in 1..Len(so.toks) : TokMatch(so.toks[i], vo.toks[i])
    ELSE so = vo

(* Both sides are at a command or an ending. *)
Sync ==
    /\ verdict = "run"
    /\ SLoc(P, s) = "" /\ VLoc(A, v) = ""
    /\ UNCHANGED ci
    /\ IF ~ObsEq(SObs(P, s), VObs(A, v))
       THEN verdict' = "diverged" /\ UNCHANGED <<s, v, memo, ss, vs>>
       ELSE IF s.at = "done"
       THEN verdict' = "ok" /\ UNCHANGED <<s, v, memo, ss, vs>>
       ELSE /\ s' = SStep(P, s, "-")
            /\ v' = VStep(A, v, "-")
            /\ memo' = <<>> /\ ss' = {} /\ vs' = {}
            /\ UNCHANGED verdict

Next == SrcRead \/ VMRead \/ Sync

Spec == Init /\ [][Next]_vars

(* The property.  A diverging case is printed (so one run reports every    *)
(* failing case of the batch); with -config RefineTrace.cfg the same       *)
(* predicate is an invariant and TLC produces the oracle path.             *)
Report ==
    verdict = "diverged" =>
        PrintT(<<"DIVERGED", ci, Cases[ci].id, SObs(P, s), VObs(A, v)>>)

NoDivergence == verdict # "diverged"

(* Never reached on correct output, whatever the source says (C04 d). *)
BadEnd(how) == how = "runoff" \/ Prefix(how, "dangling:") \/ Prefix(how, "undef:")
                 \/ Prefix(how, "noentry:")
NoRunOff == ~(v.pc = 0 /\ BadEnd(v.how))
ReportRunOff ==
    (v.pc = 0 /\ BadEnd(v.how)) => PrintT(<<"BADEND", ci, Cases[ci].id, v.how>>)
=============================================================================
