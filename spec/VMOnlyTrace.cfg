SPECIFICATION Spec
INVARIANT NoBadEnd
CHECK_DEADLOCK FALSE
