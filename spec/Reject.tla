-------------------------------- MODULE Reject ------------------------------
(***************************************************************************)
(* C20: ill-formed control flow and name clashes are rejected at the       *)
(* offending line.                                                         *)
(*                                                                         *)
(* Static rules of the language, over the node tables of PoryLang:         *)
(*   break     needs an enclosing while / do-while / switch                *)
(*   continue  needs an enclosing while / do-while and must be the last    *)
(*             statement of its block                                      *)
(* and over plain records for the other rules (duplicate case values, two  *)
(* defaults, redefined constant, text / movement named like a generated    *)
(* label, script label equal to a generated or text label).                *)
(*                                                                         *)
(* Each case is one program compiled by the REAL compiler: whether it was  *)
(* rejected and on which line.  `Exempt` programs are legal by these rules *)
(* but of a shape the parser is documented to be stricter about (continue  *)
(* at the end of a case body that is followed by another case).            *)
(***************************************************************************)
EXTENDS Naturals, Sequences, FiniteSets, TLC, Json, PoryLang

Cases == ndJsonDeserialize("reject.ndjson")
VARIABLE ci

Nodes(P, k) == {n \in 1..Len(P.N) : P.N[n].k = k}

BreakLegal(P, n) == Enclosing(P, n, {"while", "dowhile", "switch"}) # 0
ContLegal(P, n)  == Enclosing(P, n, {"while", "dowhile"}) # 0 /\ P.N[n].nxt = 0

Illegal(P) == {n \in Nodes(P, "break") : ~BreakLegal(P, n)}
              \cup {n \in Nodes(P, "continue") : ~ContLegal(P, n)}

(* a legal continue that ends a case body which is not the last of its switch *)
ExemptNode(P, n) ==
    /\ P.N[n].k = "continue" /\ ContLegal(P, n)
    /\ LET b == P.N[n].par
           o == P.N[b].par IN
       /\ o # 0 /\ P.N[o].k = "switch"
       /\ P.N[o].cases[Len(P.N[o].cases)].body # b
Exempt(P) == \E n \in Nodes(P, "continue") : ExemptNode(P, n)

(* the first offending statement in source order (node ids follow the source) *)
FirstIllegal(P) == CHOOSE n \in Illegal(P) : \A m \in Illegal(P) : n <= m

ErrAt(c, lo, hi) == c.err /\ lo <= c.eline /\ c.eline <= hi

CtlHolds(c) ==
    IF Illegal(c) # {}
    THEN ErrAt(c, c.N[FirstIllegal(c)].line, c.N[FirstIllegal(c)].line)
    ELSE Exempt(c) \/ ~c.err

(* the other rules: the case says which rule it exercises and carries the  *)
(* facts the rule is about                                                 *)
Dup(s) == \E i, j \in 1..Len(s) : i < j /\ s[i] = s[j]
RuleViolated(c) ==
    CASE c.kind = "dupcase"    -> Dup(c.casevals)
      [] c.kind = "twodefault" -> c.ndefaults >= 2
      [] c.kind = "redefconst" -> Dup(c.constnames)
      [] c.kind = "nameclash"  -> c.name \in {c.generated[i] : i \in 1..Len(c.generated)}
      [] OTHER -> FALSE

RuleHolds(c) == IF RuleViolated(c) THEN ErrAt(c, c.lo, c.hi) ELSE ~c.err

Holds(c) == IF c.kind = "ctl" THEN CtlHolds(c) ELSE RuleHolds(c)

Init == ci \in 1..Len(Cases)
Next == UNCHANGED ci
Spec == Init /\ [][Next]_ci
Report == ~Holds(Cases[ci]) => PrintT(<<"DIVERGED", ci, Cases[ci].id>>)
=============================================================================
