--------------------------- MODULE LoweringConform ---------------------------
(***************************************************************************)
(* Conformance of the real emitter with the Lowering model: each case is   *)
(* one script of a program parsed by the REAL parser (its AST converted    *)
(* field by field into the node tables) and the lines the REAL emitter     *)
(* produced for that script.  The model is run on the same AST; at the end *)
(* its lines must be the real ones.  A mismatch is drift (reported, never  *)
(* a property violation by itself).                                        *)
(***************************************************************************)
EXTENDS Lowering, Json

Cases == ndJsonDeserialize("lowering.ndjson")
VARIABLE ci
vars == <<ci, P, name, glob, opt, rem, fin, cnt, bret, borg, phase, order, bodies, jumped, ri, asm>>

Init == /\ ci \in 1..Len(Cases)
        /\ LInit(Cases[ci], Cases[ci].name, Cases[ci].root, Cases[ci].glob, Cases[ci].opt)
Next == LNext /\ UNCHANGED ci
Spec == Init /\ [][Next]_vars

(* what the harness's lexical reader sees of a line *)
Seen(ln) == IF ln.k = "label" THEN [k |-> "label", name |-> ln.name, g |-> ln.g] ELSE [k |-> "ins", toks |-> ln.toks]
SeenAsm == [j \in 1..Len(asm) |-> Seen(asm[j])]

Report == (phase = "done" /\ SeenAsm # Cases[ci].lines) =>
             PrintT(<<"DIVERGED", ci, Cases[ci].id, "model", SeenAsm, "real", Cases[ci].lines>>)
=============================================================================
