------------------------------- MODULE GenChars -----------------------------
(***************************************************************************)
(* Input family for LexAll: every string of length <= MaxLen over an       *)
(* alphabet of NSym symbols (indices; the harness holds the characters).   *)
(***************************************************************************)
EXTENDS Naturals, Sequences, FiniteSets, TLC, Json, SequencesExt
CONSTANTS MaxLen, NSym
Strs == UNION {[1..n -> 1..NSym] : n \in 0..MaxLen}
ASSUME PrintT(<<"GenChars", Cardinality(Strs)>>)
ASSUME ndJsonSerialize("chars.ndjson", SetToSeq(Strs))
VARIABLE x
Init == x = 0
Next == x' = x
=============================================================================
