----------------------------- MODULE Poryswitch -----------------------------
(***************************************************************************)
(* C12: a poryswitch contributes exactly the selected case.                *)
(*                                                                         *)
(* Selection rule: the case whose value equals the value given with -s,    *)
(* otherwise the case '_', otherwise nothing (a compile error).            *)
(*                                                                         *)
(* Each case of pscases.ndjson pairs two REAL compilations:                *)
(*   out1  the program P with poryswitch nodes, compiled with switches s   *)
(*   out2  the resolved program R (every poryswitch replaced by the        *)
(*         content of its selected case)                                   *)
(* P was built from R by wrapping parts of it; `wrappers` lists, for every *)
(* poryswitch node created, its case values, the switch value and the      *)
(* case the builder meant to be selected.  TLC checks the builder against  *)
(* Selected (so the pairing really is "P resolves to R"), then the         *)
(* property: identical lines, or a compile error exactly when some         *)
(* wrapper selects nothing.                                                *)
(***************************************************************************)
EXTENDS Naturals, Sequences, FiniteSets, TLC, Json

Cases == ndJsonDeserialize("pscases.ndjson")
VARIABLE ci

Selected(cases, val) ==
    LET m == {i \in 1..Len(cases) : cases[i] = val}
        d == {i \in 1..Len(cases) : cases[i] = "_"}
    IN IF m # {} THEN CHOOSE i \in m : \A j \in m : i >= j
       ELSE IF d # {} THEN CHOOSE i \in d : \A j \in d : i >= j
       ELSE 0

BuilderSound(c) == \A i \in 1..Len(c.wrappers) :
                      Selected(c.wrappers[i].cases, c.wrappers[i].val) = c.wrappers[i].intended
MustFail(c) == \E i \in 1..Len(c.wrappers) : Selected(c.wrappers[i].cases, c.wrappers[i].val) = 0

Holds(c) == IF MustFail(c) THEN c.err1
            ELSE ~c.err1 /\ ~c.err2 /\ c.out1 = c.out2

Init == ci \in 1..Len(Cases)
Next == UNCHANGED ci
Spec == Init /\ [][Next]_ci

Report ==
    /\ (~BuilderSound(Cases[ci]) => PrintT(<<"BUILDER", ci, Cases[ci].id>>))
    /\ (~Holds(Cases[ci]) => PrintT(<<"DIVERGED", ci, Cases[ci].id>>))
=============================================================================
