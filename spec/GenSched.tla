------------------------------- MODULE GenSched -----------------------------
(***************************************************************************)
(* Schedules for C17: every sequence of 1..MaxLen compilations over a pool *)
(* of Pool inputs (indices), repeats allowed.                              *)
(***************************************************************************)
EXTENDS Naturals, Sequences, FiniteSets, TLC, Json, SequencesExt
CONSTANTS Pool, MaxLen
Scheds == UNION {[1..n -> 1..Pool] : n \in 1..MaxLen}
ASSUME PrintT(<<"GenSched", Cardinality(Scheds)>>)
ASSUME ndJsonSerialize("scheds.ndjson", SetToSeq(Scheds))
VARIABLE x
Init == x = 0
Next == x' = x
=============================================================================
