SPECIFICATION Spec
INVARIANT Report
INVARIANT ReportData
CHECK_DEADLOCK FALSE
