------------------------------- MODULE LexTrace -----------------------------
(***************************************************************************)
(* Trace validation for C19.  lex.ndjson is the concatenation, input after *)
(* input, of the layout the harness wrote (adv / nl events between the     *)
(* lexemes) and, for every lexeme, the token the REAL lexer.NextToken      *)
(* returned at that index.  Every token must be exactly what LexPos        *)
(* predicts; after the last lexeme the lexer must return EOF at the final  *)
(* position and nothing else.  Deterministic replay; a rejected input is   *)
(* printed and skipped.                                                    *)
(***************************************************************************)
EXTENDS LexPos, Json

Trace == ndJsonDeserialize("lex.ndjson")
VARIABLES l, pos, mode, fid
tvars == <<l, pos, mode, fid>>
Ev == Trace[l]

TInit == l = 1 /\ pos = Start /\ mode = "ok" /\ fid = ""

Reject(why) == /\ PrintT(<<"REJECT", fid, l, why>>)
               /\ mode' = "skip" /\ UNCHANGED <<pos, fid>>

Step ==
    /\ l <= Len(Trace)
    /\ l' = l + 1
    /\ IF Ev.ev = "input" THEN pos' = Start /\ mode' = "ok" /\ fid' = Ev.id
       ELSE IF mode = "skip" THEN UNCHANGED <<pos, mode, fid>>
       ELSE IF Ev.ev = "adv" THEN pos' = Adv(pos, Ev.nb, Ev.nr) /\ UNCHANGED <<mode, fid>>
       ELSE IF Ev.ev = "nl" THEN pos' = NL(pos) /\ UNCHANGED <<mode, fid>>
       ELSE IF Ev.ev = "tok"
       THEN IF TokOK(pos, Ev, Ev.obs)
            THEN pos' = AfterTok(pos, Ev) /\ UNCHANGED <<mode, fid>>
            ELSE Reject(<<"token", Ev.lit, "at", pos, "lexer", Ev.obs>>)
       ELSE \* "eof": the end-of-input token, and no token was left over
            IF Ev.obs.type = "EOF" /\ Ev.obs.line = pos.line /\ Ev.obs.sb = pos.b /\ Ev.obs.sr = pos.r
               /\ Ev.extra = 0
            THEN UNCHANGED <<pos, mode, fid>>
            ELSE Reject(<<"eof", pos, Ev.obs, Ev.extra>>)

TSpec == TInit /\ [][Step]_tvars
=============================================================================
