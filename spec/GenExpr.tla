------------------------------ MODULE GenExpr -------------------------------
(***************************************************************************)
(* Input family for C02/C11: every boolean-expression tree with at most    *)
(* MaxLeaves leaves over && || !( ), each leaf plain or '!'-prefixed, and  *)
(* the list of leaf forms of the manual.  TLC enumerates the sets and      *)
(* writes them as ndjson; the harness renders them.                        *)
(***************************************************************************)
EXTENDS Naturals, Sequences, FiniteSets, TLC, Json, SequencesExt
CONSTANT MaxLeaves

Leaf == {[k |-> "leaf", neg |-> b] : b \in BOOLEAN}

RECURSIVE E(_)
E(n) == IF n = 1 THEN Leaf
        ELSE LET bin == UNION {{[k |-> op, l |-> a, r |-> b] :
                                   op \in {"and", "or"}, a \in E(i), b \in E(n - i)} : i \in 1..(n - 1)}
             IN bin \cup {[k |-> "not", e |-> x] : x \in bin}

Shapes == UNION {E(n) : n \in 1..MaxLeaves}

(* Leaf forms of the manual (a '!'-prefixed leaf only exists for "bare"). *)
FlagLike(t) == {[typ |-> t, form |-> "bare", op |-> "", val |-> "", strict |-> FALSE]}
               \cup {[typ |-> t, form |-> "cmp", op |-> o, val |-> v, strict |-> FALSE] :
                        o \in {"==", "!="}, v \in {"TRUE", "FALSE"}}
VarForms == {[typ |-> "var", form |-> "bare", op |-> "", val |-> "", strict |-> FALSE]}
            \cup {[typ |-> "var", form |-> "cmp", op |-> o, val |-> v, strict |-> s] :
                     o \in {"==", "!=", "<", "<=", ">", ">="}, v \in {"1", "VAR_Z + 2"}, s \in BOOLEAN}
(* an AutoVar command as operand: compared like a var *)
AutoForms == {[typ |-> "auto", form |-> "bare", op |-> "", val |-> "", strict |-> FALSE]}
             \cup {[typ |-> "auto", form |-> "cmp", op |-> o, val |-> "1", strict |-> FALSE] : o \in {"==", "!=", "<", ">="}}
Forms == FlagLike("flag") \cup FlagLike("defeated") \cup VarForms \cup AutoForms

ASSUME PrintT(<<"shapes", [n \in 1..MaxLeaves |-> Cardinality(E(n))], "forms", Cardinality(Forms)>>)
ASSUME ndJsonSerialize("shapes.ndjson", SetToSeq(Shapes))
ASSUME ndJsonSerialize("forms.ndjson", SetToSeq(Forms))

VARIABLE x
Init == x = 0
Next == x' = x
=============================================================================
