---------------------------- MODULE LoweringRefine ----------------------------
(***************************************************************************)
(* A design-level result about the emitter's ALGORITHM, with no compiler   *)
(* in the loop: the Lowering model is run on a program's node tables, and  *)
(* the assembly IT produces is then explored in lockstep with the          *)
(* reference semantics of the same tables (the product of Refine).  Since  *)
(* LoweringConform shows the real emitter produces exactly the model's     *)
(* lines, the two together localise responsibility: an algorithmic error   *)
(* shows up here, a coding error as drift there.                           *)
(***************************************************************************)
EXTENDS Lowering, PoryLang, ScriptVM, Json

Cases == ndJsonDeserialize("lowering.ndjson")
VARIABLES ci, vm, s, v, memo, ss, vs, verdict
vars == <<ci, vm, s, v, memo, ss, vs, verdict, P, name, glob, opt, rem, fin, cnt, bret, borg, phase, order, bodies, jumped, ri, asm>>
pvars == <<vm, s, v, memo, ss, vs, verdict>>

Init == /\ ci \in {i \in 1..Len(Cases) : Cases[i].selfcontained}
        /\ LInit(Cases[ci], Cases[ci].name, Cases[ci].root, Cases[ci].glob, Cases[ci].opt)
        /\ vm = <<>> /\ s = <<>> /\ v = <<>> /\ memo = <<>> /\ ss = {} /\ vs = {} /\ verdict = "lowering"

Lower == verdict = "lowering" /\ LNext /\ UNCHANGED <<ci, pvars>>

LabIdx(a) == {i \in 1..Len(a) : a[i].k = "label"}
LabMap(a) == [n \in {a[i].name : i \in LabIdx(a)} |-> CHOOSE i \in LabIdx(a) : a[i].name = n /\ \A j \in LabIdx(a) : a[j].name = n => i <= j]

(* the model has finished: start both sides at the script's entry *)
Start ==
    /\ verdict = "lowering" /\ phase = "done"
    /\ LET A == [asm |-> asm, lab |-> LabMap(asm)] IN
       /\ vm' = A
       /\ s' = EntryPoint(P, Cases[ci].root)
       /\ v' = IF name \in DOMAIN A.lab THEN VGo(A, VInit(A.lab[name]), {}) ELSE VFinish(VInit(0), "noentry")
    /\ memo' = <<>> /\ ss' = {} /\ vs' = {} /\ verdict' = "run"
    /\ UNCHANGED <<ci, P, name, glob, opt, rem, fin, cnt, bret, borg, phase, order, bodies, jumped, ri, asm>>

Prefix(str, p) == Len(str) >= Len(p) /\ SubSeq(str, 1, Len(p)) = p
Dom(loc) ==
    IF Prefix(loc, "sw:") THEN SwitchValues(P, SubSeq(loc, 4, Len(loc))) \cup VSwitchValues(vm, SubSeq(loc, 4, Len(loc))) \cup {"@other"}
    ELSE IF Prefix(loc, "cmp:") \/ Prefix(loc, "cmpv:") THEN {"lt", "eq", "gt"}
    ELSE {"T", "F"}

LU == UNCHANGED <<ci, vm, P, name, glob, opt, rem, fin, cnt, bret, borg, phase, order, bodies, jumped, ri, asm>>

SrcRead ==
    /\ verdict = "run" /\ SLoc(P, s) # "" /\ LU /\ UNCHANGED <<v, verdict>>
    /\ IF SLoc(P, s) \in DOMAIN memo
       THEN /\ UNCHANGED <<memo, vs>>
            /\ IF s \in ss THEN s' = Done("diverge") /\ UNCHANGED ss
               ELSE s' = SStep(P, s, memo[SLoc(P, s)]) /\ ss' = ss \cup {s}
       ELSE \E a \in Dom(SLoc(P, s)) :
               /\ memo' = (SLoc(P, s) :> a) @@ memo /\ s' = SStep(P, s, a) /\ ss' = {} /\ vs' = {}

VMRead ==
    /\ verdict = "run" /\ SLoc(P, s) = "" /\ VLoc(vm, v) # "" /\ LU /\ UNCHANGED <<s, verdict>>
    /\ IF VLoc(vm, v) \in DOMAIN memo
       THEN /\ UNCHANGED <<memo, ss>>
            /\ IF v \in vs THEN v' = VFinish(v, "diverge") /\ UNCHANGED vs
               ELSE v' = VStep(vm, v, memo[VLoc(vm, v)]) /\ vs' = vs \cup {v}
       ELSE \E a \in Dom(VLoc(vm, v)) :
               /\ memo' = (VLoc(vm, v) :> a) @@ memo /\ v' = VStep(vm, v, a) /\ ss' = {} /\ vs' = {}

Sync ==
    /\ verdict = "run" /\ SLoc(P, s) = "" /\ VLoc(vm, v) = "" /\ LU
    /\ IF SObs(P, s) # VObs(vm, v)
       THEN verdict' = "diverged" /\ UNCHANGED <<s, v, memo, ss, vs>>
       ELSE IF s.at = "done" THEN verdict' = "ok" /\ UNCHANGED <<s, v, memo, ss, vs>>
       ELSE /\ s' = SStep(P, s, "-") /\ v' = VStep(vm, v, "-")
            /\ memo' = <<>> /\ ss' = {} /\ vs' = {} /\ UNCHANGED verdict

Next == Lower \/ Start \/ SrcRead \/ VMRead \/ Sync
Spec == Init /\ [][Next]_vars

Report == verdict = "diverged" => PrintT(<<"DIVERGED", ci, Cases[ci].id, SObs(P, s), VObs(vm, v)>>)
=============================================================================
