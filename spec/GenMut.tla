-------------------------------- MODULE GenMut ------------------------------
(***************************************************************************)
(* Input family for C18: the complete single-edit neighbourhood of a token *)
(* list of length <= N: every truncation, deletion, duplication, adjacent  *)
(* swap, and substitution / insertion of each of V vocabulary tokens       *)
(* (indices into the harness's vocabulary, which includes hostile runes).  *)
(* The harness applies every edit whose position exists to every seed.     *)
(***************************************************************************)
EXTENDS Naturals, Sequences, FiniteSets, TLC, Json, SequencesExt
CONSTANTS N, V
Edits == {[op |-> o, pos |-> p, tok |-> 0] : o \in {"trunc", "del", "dup", "swap"}, p \in 1..N}
         \cup {[op |-> o, pos |-> p, tok |-> t] : o \in {"sub", "ins"}, p \in 1..N, t \in 1..V}
ASSUME PrintT(<<"GenMut", Cardinality(Edits)>>)
ASSUME ndJsonSerialize("edits.ndjson", SetToSeq(Edits))
VARIABLE x
Init == x = 0
Next == x' = x
=============================================================================
