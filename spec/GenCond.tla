------------------------------- MODULE GenCond ------------------------------
(***************************************************************************)
(* Input family for the conformance of ParserModel on ALL token strings,   *)
(* well-formed or not: every sequence of length <= MaxLen over the six     *)
(* token classes of a condition (1 "(", 2 ")", 3 "&&", 4 "||", 5 "!",      *)
(* 6 a leaf).  The harness numbers the leaves and writes the text.         *)
(***************************************************************************)
EXTENDS Naturals, Sequences, FiniteSets, TLC, Json, SequencesExt
CONSTANT MaxLen
Seqs == UNION {[1..n -> 1..6] : n \in 0..MaxLen}
ASSUME PrintT(<<"GenCond", Cardinality(Seqs)>>)
ASSUME ndJsonSerialize("conds.ndjson", SetToSeq(Seqs))
VARIABLE x
Init == x = 0
Next == x' = x
=============================================================================
