------------------------------ MODULE GenHoist ------------------------------
(***************************************************************************)
(* Input family for C06: every sequence of 1..MaxLen inline occurrences    *)
(* over two scripts, two text contents that coincide after terminator      *)
(* processing for some types only, three string types, and four step lists *)
(* of which two expand to the same steps and two differ only in the last   *)
(* repeat count.  Content indices are expanded by the harness.             *)
(***************************************************************************)
EXTENDS Naturals, Sequences, FiniteSets, TLC, Json, SequencesExt
CONSTANT MaxLen

Occ == [script : {"A", "B"}, kind : {"text"}, c : 1..2, type : {"", "ascii", "braille"}]
       \cup [script : {"A", "B"}, kind : {"moves"}, c : 1..4, type : {""}]
Family == UNION {[1..n -> Occ] : n \in 1..MaxLen}

ASSUME PrintT(<<"GenHoist", Cardinality(Family)>>)
ASSUME ndJsonSerialize("hoists.ndjson", SetToSeq(Family))

VARIABLE x
Init == x = 0
Next == x' = x
=============================================================================
