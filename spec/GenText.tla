------------------------------- MODULE GenText ------------------------------
(***************************************************************************)
(* Input family for C09: every text content of length <= MaxLen over an    *)
(* alphabet chosen to hit the terminator rules ("$", the two characters of *)
(* "\0" separately, an ordinary letter, a multi-byte letter written as the *)
(* harness's ASCII escape, a line break inside the literal), and the       *)
(* string types.                                                           *)
(***************************************************************************)
EXTENDS Naturals, Sequences, FiniteSets, TLC, Json, SequencesExt
CONSTANT MaxLen

Alphabet == {"$", "\\", "0", "a", "\\n", "E", "N", "H"}     \* "E" is replaced by a multi-byte letter by the harness,
                                                    \* "N" by a real line break inside the quotes (multi-line literal),
                                                    \* "H" by a comment opener ("#" or "//"), which is text inside quotes
Types    == {"", "ascii", "braille", "custom"}

RECURSIVE Strs(_)
Strs(n) == IF n = 0 THEN {""} ELSE {s \o a : s \in Strs(n - 1), a \in Alphabet}
Contents == UNION {Strs(n) : n \in 0..MaxLen}

Family == {[content |-> c, type |-> t] : c \in Contents, t \in Types}
ASSUME PrintT(<<"GenText", Cardinality(Family)>>)
ASSUME ndJsonSerialize("texts.ndjson", SetToSeq(Family))

VARIABLE x
Init == x = 0
Next == x' = x
=============================================================================
