------------------------------ MODULE PoryLang ------------------------------
(***************************************************************************)
(* Reference meaning of poryscript script bodies: a small-step semantics   *)
(* over the abstract syntax, given as two node tables.                      *)
(*                                                                         *)
(*   P.N  statements and blocks      P.E  boolean-expression nodes          *)
(*   P.ulab  label name -> label node   P.sroot  script name -> root block  *)
(*                                                                         *)
(* Only commands and the way a script finishes are observable.  Reads of   *)
(* game state (flags, vars, trainer flags, the switched var) are requests  *)
(* for an answer at a LOCATION; who answers them is decided by the module  *)
(* that composes this one with a target machine (Refine).                  *)
(*                                                                         *)
(* Every operator takes the program P explicitly, so the module has no     *)
(* constants and can be instantiated over thousands of programs per run.   *)
(***************************************************************************)
EXTENDS Naturals, Sequences, FiniteSets, TLC

Done(how) == [at |-> "done", how |-> how]

-----------------------------------------------------------------------------
(* Boolean expressions: left-to-right, short-circuit.                      *)

RECURSIVE FirstLeaf(_, _)
FirstLeaf(P, e) ==
    LET x == P.E[e] IN
    IF x.k = "leaf" THEN e
    ELSE IF x.k = "not" THEN FirstLeaf(P, x.e)
    ELSE FirstLeaf(P, x.l)

(* The sub-expression e has just been found to have truth value t.  Either *)
(* another leaf must be evaluated next, or the whole condition is decided. *)
RECURSIVE Up(_, _, _)
Up(P, e, t) ==
    LET x == P.E[e] IN
    IF x.par = 0 THEN [out |-> t]
    ELSE LET p == P.E[x.par] IN
         CASE p.k = "not" -> Up(P, x.par, ~t)
           [] p.k = "and" -> (IF x.dir = 1
                              THEN IF t THEN [leaf |-> FirstLeaf(P, p.r)]
                                        ELSE Up(P, x.par, FALSE)
                              ELSE Up(P, x.par, t))
           [] p.k = "or"  -> (IF x.dir = 1
                              THEN IF t THEN Up(P, x.par, TRUE)
                                        ELSE [leaf |-> FirstLeaf(P, p.r)]
                              ELSE Up(P, x.par, t))

(* Where a leaf reads, and what its answer means (the manual's table).     *)
(* Answers: "T"/"F" for flags and trainer flags; "lt"/"eq"/"gt" for the    *)
(* comparison of a var with the written value.                             *)
(* value(...) with more than one token is passed on parenthesised.          *)
LeafCmpVal(lf) == IF lf.form # "cmp" THEN "0"
                  ELSE IF lf.strict /\ lf.multi THEN "( " \o lf.val \o " )"
                  ELSE lf.val

LeafLoc(lf) ==
    CASE lf.typ = "flag"     -> "flag:" \o lf.opnd
      [] lf.typ = "defeated" -> "trainer:" \o lf.opnd
      [] OTHER -> (IF lf.form = "cmp" /\ lf.strict THEN "cmpv:" ELSE "cmp:")
                  \o lf.opnd \o ":" \o LeafCmpVal(lf)

LeafTruth(lf, a) ==
    IF lf.typ \in {"flag", "defeated"}
    THEN LET set == (a = "T") IN
         CASE lf.form = "bare" -> set
           [] lf.form = "not"  -> ~set
           [] OTHER -> (IF lf.op = "==" THEN (lf.val \in {"TRUE", "true"}) = set
                                         ELSE (lf.val \in {"TRUE", "true"}) # set)
    ELSE CASE lf.form = "bare" -> a # "eq"          \* var(V): non-zero
           [] lf.form = "not"  -> a = "eq"          \* !var(V): zero
           [] OTHER -> (CASE lf.op = "==" -> a = "eq"
                          [] lf.op = "!=" -> a # "eq"
                          [] lf.op = "<"  -> a = "lt"
                          [] lf.op = "<=" -> a \in {"lt", "eq"}
                          [] lf.op = ">"  -> a = "gt"
                          [] lf.op = ">=" -> a \in {"gt", "eq"})

-----------------------------------------------------------------------------
(* switch: index of the case whose body runs for answer a, 0 = none.       *)
RECURSIVE NextBody(_, _)
NextBody(cs, j) == IF j > Len(cs) THEN 0
                   ELSE IF cs[j].n > 0 THEN j ELSE NextBody(cs, j + 1)

SwitchTarget(st, a) ==
    LET m == {j \in 1..Len(st.cases) : ~st.cases[j].isdef /\ st.cases[j].val = a}
        d == {j \in 1..Len(st.cases) : st.cases[j].isdef}
        start == IF m # {} THEN CHOOSE j \in m : \A i \in m : j <= i
                 ELSE IF d # {} THEN CHOOSE j \in d : TRUE ELSE 0
    IN IF start = 0 THEN 0 ELSE NextBody(st.cases, start)

(* All values written in a case of a switch on var v anywhere in P.        *)
SwitchValues(P, v) ==
    UNION {{P.N[i].cases[j].val : j \in {j \in 1..Len(P.N[i].cases) : ~P.N[i].cases[j].isdef}}
           : i \in {i \in 1..Len(P.N) : P.N[i].k = "switch" /\ P.N[i].v = v}}

-----------------------------------------------------------------------------
(* Control points.                                                         *)
(*   observable:  cmd(n)  pre(n,a,e)  swpre(n)  done(how)                   *)
(*   reads:       read(n,a,e)  swread(n)                                    *)
(*   silent:      stmt(n) enter(b) blockend(b) after(n) test(n) cond(n,a)  *)

CondOf(P, n, a) == IF P.N[n].k = "if" THEN P.N[n].arms[a].cond ELSE P.N[n].cond

LeafPoint(P, n, a, e) ==
    IF P.E[e].typ = "auto" THEN [at |-> "pre", n |-> n, a |-> a, e |-> e]
                           ELSE [at |-> "read", n |-> n, a |-> a, e |-> e]

(* innermost statement of a kind in K that encloses statement n, 0 if none *)
RECURSIVE Enclosing(_, _, _)
Enclosing(P, n, K) ==
    LET o == P.N[P.N[n].par].par IN
    IF o = 0 THEN 0
    ELSE IF P.N[o].k \in K THEN o ELSE Enclosing(P, o, K)

CmdName(x) == x.toks[1]

(* Silent moves up to the next observable point or read.  A silent cycle   *)
(* (while {} and friends) is the outcome "diverge".                        *)
RECURSIVE Go(_, _, _)
Go(P, pt, seen) ==
    IF pt \in seen THEN Done("diverge")
    ELSE LET sn == seen \cup {pt} IN
    CASE pt.at \in {"done", "cmd", "pre", "read", "swpre", "swread"} -> pt
      [] pt.at = "enter" ->
            (LET b == P.N[pt.n] IN
             IF b.first = 0 THEN Go(P, [at |-> "blockend", n |-> pt.n], sn)
                            ELSE Go(P, [at |-> "stmt", n |-> b.first], sn))
      [] pt.at = "blockend" ->
            (LET b == P.N[pt.n] IN
             IF b.par = 0 THEN Done("return")           \* end of the script body
             ELSE IF P.N[b.par].k \in {"if", "switch"}
                  THEN Go(P, [at |-> "after", n |-> b.par], sn)
                  ELSE Go(P, [at |-> "test", n |-> b.par], sn))   \* while, do-while
      [] pt.at = "after" ->
            (LET x == P.N[pt.n] IN
             IF x.nxt # 0 THEN Go(P, [at |-> "stmt", n |-> x.nxt], sn)
                          ELSE Go(P, [at |-> "blockend", n |-> x.par], sn))
      [] pt.at = "test" ->
            (LET x == P.N[pt.n] IN
             IF x.k = "while" /\ x.cond = 0
             THEN Go(P, [at |-> "enter", n |-> x.body], sn)
             ELSE Go(P, [at |-> "cond", n |-> pt.n, a |-> 1], sn))
      [] pt.at = "cond" ->
            LeafPoint(P, pt.n, pt.a, FirstLeaf(P, CondOf(P, pt.n, pt.a)))
      [] pt.at = "stmt" ->
            (LET x == P.N[pt.n] IN
             CASE x.k = "cmd" ->
                    (IF CmdName(x) = "end" THEN Done("end")
                     ELSE IF CmdName(x) = "return" THEN Done("return")
                     ELSE IF CmdName(x) = "goto" /\ Len(x.toks) = 2
                     THEN (LET L == x.toks[2] IN
                           IF L \in DOMAIN P.ulab
                           THEN Go(P, [at |-> "after", n |-> P.ulab[L]], sn)
                           ELSE IF L \in DOMAIN P.sroot
                           THEN Go(P, [at |-> "enter", n |-> P.sroot[L]], sn)
                           ELSE Done("leave:" \o L))
                     ELSE [at |-> "cmd", n |-> pt.n])
               [] x.k = "label"   -> Go(P, [at |-> "after", n |-> pt.n], sn)
               [] x.k = "if"      -> Go(P, [at |-> "cond", n |-> pt.n, a |-> 1], sn)
               [] x.k = "while"   -> Go(P, [at |-> "test", n |-> pt.n], sn)
               [] x.k = "dowhile" -> Go(P, [at |-> "enter", n |-> x.body], sn)
               [] x.k = "switch"  -> (IF Len(x.pre) > 0 THEN [at |-> "swpre", n |-> pt.n]
                                                         ELSE [at |-> "swread", n |-> pt.n])
               [] x.k = "break"   ->
                    Go(P, [at |-> "after", n |-> Enclosing(P, pt.n, {"while", "dowhile", "switch"})], sn)
               [] x.k = "continue" ->
                    (LET l == Enclosing(P, pt.n, {"while", "dowhile"}) IN
                     IF P.N[l].k = "while"
                     THEN Go(P, [at |-> "test", n |-> l], sn)
                     \* do...while: "returns to the start of the loop" (README)
                     ELSE Go(P, [at |-> "enter", n |-> P.N[l].body], sn)))

(* The entry point for a script root block or a label node.                *)
EntryPoint(P, node) ==
    IF P.N[node].k = "block" THEN Go(P, [at |-> "enter", n |-> node], {})
                             ELSE Go(P, [at |-> "after", n |-> node], {})

(* What a point offers: a command, an ending, or nothing (it is a read).   *)
SObs(P, pt) ==
    CASE pt.at = "done"  -> [k |-> "done", how |-> pt.how]
      [] pt.at = "cmd"   -> [k |-> "cmd", toks |-> P.N[pt.n].toks]
      [] pt.at = "pre"   -> [k |-> "cmd", toks |-> P.E[pt.e].toks]
      [] pt.at = "swpre" -> [k |-> "cmd", toks |-> P.N[pt.n].pre]
      [] OTHER -> [k |-> "read"]

SLoc(P, pt) ==
    CASE pt.at = "read"   -> LeafLoc(P.E[pt.e])
      [] pt.at = "swread" -> "sw:" \o P.N[pt.n].v
      [] OTHER -> ""

(* What happens once condition (n, a) has value t.                         *)
Decide(P, n, a, t) ==
    LET x == P.N[n] IN
    IF x.k = "if"
    THEN IF t THEN [at |-> "enter", n |-> x.arms[a].body]
         ELSE IF a < Len(x.arms) THEN [at |-> "cond", n |-> n, a |-> a + 1]
         ELSE IF x.els # 0 THEN [at |-> "enter", n |-> x.els]
         ELSE [at |-> "after", n |-> n]
    ELSE IF t THEN [at |-> "enter", n |-> x.body]
              ELSE [at |-> "after", n |-> n]

(* One step from an observable point or a read with answer a.              *)
SStep(P, pt, a) ==
    CASE pt.at = "cmd"   -> Go(P, [at |-> "after", n |-> pt.n], {})
      [] pt.at = "pre"   -> [pt EXCEPT !.at = "read"]
      [] pt.at = "swpre" -> [at |-> "swread", n |-> pt.n]
      [] pt.at = "read"  ->
            (LET r == Up(P, pt.e, LeafTruth(P.E[pt.e], a)) IN
             IF "leaf" \in DOMAIN r THEN LeafPoint(P, pt.n, pt.a, r.leaf)
             ELSE Go(P, Decide(P, pt.n, pt.a, r.out), {}))
      [] pt.at = "swread" ->
            (LET x == P.N[pt.n]
                 j == SwitchTarget(x, a)
             IN IF j = 0 THEN Go(P, [at |-> "after", n |-> pt.n], {})
                ELSE Go(P, [at |-> "enter", n |-> x.cases[j].body], {}))

=============================================================================
