-------------------------------- MODULE CmdAll -------------------------------
(***************************************************************************)
(* CmdModel against the REAL compiler on every token string of GenChars    *)
(* (as indices into the harness's token alphabet): the same accept /       *)
(* reject, and for accepted bodies the same lines between the script's     *)
(* label and its final return.                                             *)
(***************************************************************************)
EXTENDS CmdModel, Json
Cases == ndJsonDeserialize("cmdall.ndjson")
VARIABLE ci
Init == ci \in 1..Len(Cases)
Next == UNCHANGED ci
Spec == Init /\ [][Next]_ci
Conform(c) == LET m == Body(c.toks) IN m.err = c.err /\ (~m.err => m.lines = c.lines)
Report == ~Conform(Cases[ci]) => PrintT(<<"DIVERGED", ci, Cases[ci].id, "conformance", Body(Cases[ci].toks)>>)
=============================================================================
