------------------------------- MODULE Session ------------------------------
(***************************************************************************)
(* C17 (determinism): a process history is a sequence of compilations      *)
(* (key = input text + options, result = digest of the output or of the    *)
(* error).  The history must be FUNCTIONAL: the same key always gives the  *)
(* same result, however many and whichever compilations ran before in the  *)
(* process.  session.ndjson holds the histories recorded by the harness    *)
(* from the REAL compiler running schedules (sequences over a pool of      *)
(* inputs, with repeats) in one process.  The history starts with the      *)
(* result each input gives in a FRESH process that compiled nothing before *)
(* (schedule "fresh-process"), so a result that depends on what ran        *)
(* earlier is a second, different value for its key.                       *)
(***************************************************************************)
EXTENDS Naturals, Sequences, TLC, Json

Trace == ndJsonDeserialize("session.ndjson")
VARIABLES l, seen
vars == <<l, seen>>
Ev == Trace[l]

Init == l = 1 /\ seen = <<>>
Step ==
    /\ l <= Len(Trace)
    /\ l' = l + 1
    /\ IF Ev.key \in DOMAIN seen
       THEN /\ (seen[Ev.key] # Ev.digest =>
                   PrintT(<<"REJECT", Ev.sched, l, <<"key", Ev.key, "was", seen[Ev.key], "now", Ev.digest>>>>))
            /\ UNCHANGED seen
       ELSE seen' = (Ev.key :> Ev.digest) @@ seen
Spec == Init /\ [][Step]_vars
=============================================================================
