----------------------------- MODULE HoistTrace -----------------------------
(***************************************************************************)
(* Trace validation for C06.  The trace (hoist.ndjson) is the              *)
(* concatenation, file after file, of                                      *)
(*   file     start of a compiled file                                     *)
(*   occur    an inline text / moves() argument, in source order, with the *)
(*            label found at that argument position in the REAL output     *)
(*   userdef  a text or movement statement of the source                   *)
(*   outcome  whether the real compiler accepted the file                  *)
(*   def      a text or movement definition found in the real output       *)
(*   end      end of the file's events                                     *)
(* Each event must be the step the Hoist model takes; the replay is        *)
(* deterministic.  A mismatch is recorded (bad) and printed, the rest of   *)
(* that file is skipped, and validation resumes at the next file, so one   *)
(* run reports every rejected file.                                        *)
(***************************************************************************)
EXTENDS Hoist, Emission, Json

Trace == ndJsonDeserialize("hoist.ndjson")

VARIABLES l,        \* index of the next event
          users,    \* user-defined names of the current file: <<kind, name>>
          seen,     \* definitions of the output matched so far
          mode,     \* "ok" | "skip"
          fid,      \* id of the current file
          expect    \* allocated label -> what its definition must contain
tvars == <<table, count, defs, l, users, seen, mode, fid, expect>>

Ev == Trace[l]

TInit == HInit /\ l = 1 /\ users = {} /\ seen = {} /\ mode = "ok" /\ fid = "" /\ expect = <<>>

Reject(why) ==
    /\ PrintT(<<"REJECT", fid, l, why>>)
    /\ mode' = "skip"
    /\ UNCHANGED <<table, count, defs, users, seen, fid, expect>>

(* Sharing key of an occurrence: the text after terminator processing, or  *)
(* the expanded step list as written.  What its definition must contain:   *)
(* that text, or the steps up to the first step_end plus one step_end.     *)
KeyOf(ev)  == IF ev.kind = "text" THEN Terminate(ev.content, ev.typ) ELSE RleOf(ev.items, <<>>)
EmitOf(ev) == IF ev.kind = "text" THEN Terminate(ev.content, ev.typ) ELSE ExpectedList(ev.items, "step_end")

AllocNames(kind) == {defs[i].name : i \in {i \in 1..Len(defs) : defs[i].kind = kind}}
UserNames(kind)  == {u[2] : u \in {u \in users : u[1] = kind}}
Clash == \E k \in {"text", "moves"} : AllocNames(k) \cap UserNames(k) # {}

Step ==
    /\ l <= Len(Trace)
    /\ l' = l + 1
    /\ IF Ev.ev = "file"
       THEN /\ table' = <<>> /\ count' = <<>> /\ defs' = <<>> /\ expect' = <<>>
            /\ users' = {} /\ seen' = {} /\ mode' = "ok" /\ fid' = Ev.id
       ELSE IF mode = "skip" THEN UNCHANGED <<table, count, defs, users, seen, mode, fid, expect>>
       ELSE IF Ev.ev = "occur"
       THEN LET c == KeyOf(Ev)
                lab == LabelOf(Ev.script, Ev.kind, c, Ev.typ) IN
            IF Ev.label # "?" /\ Ev.label # lab
            THEN Reject(<<"label", Ev.label, "expected", lab>>)
            ELSE /\ Occur(Ev.script, Ev.kind, c, Ev.typ)
                 /\ expect' = IF lab \in DOMAIN expect THEN expect ELSE (lab :> EmitOf(Ev)) @@ expect
                 /\ UNCHANGED <<users, seen, mode, fid>>
       ELSE IF Ev.ev = "userdef"
       THEN /\ users' = users \cup {<<Ev.kind, Ev.name>>}
            /\ UNCHANGED <<table, count, defs, seen, mode, fid, expect>>
       ELSE IF Ev.ev = "outcome"
       THEN IF Ev.ok = Clash
            THEN Reject(<<"outcome", Ev.ok, "clash", Clash>>)
            ELSE IF ~Ev.ok THEN /\ mode' = "skip"      \* correctly rejected: no output to match
                                /\ UNCHANGED <<table, count, defs, users, seen, fid, expect>>
            ELSE UNCHANGED <<table, count, defs, users, seen, mode, fid, expect>>
       ELSE IF Ev.ev = "def"
       THEN IF <<Ev.kind, Ev.name>> \in users
            THEN UNCHANGED <<table, count, defs, users, seen, mode, fid, expect>>   \* the author's own definition
            ELSE IF /\ \E i \in 1..Len(defs) :
                          /\ defs[i].name = Ev.name /\ defs[i].kind = Ev.kind
                          /\ (Ev.kind = "text" => Directive(defs[i].typ) = Ev.dir)
                    /\ Ev.name \in DOMAIN expect
                    /\ expect[Ev.name] = Ev.content
                    /\ Ev.name \notin seen
                    /\ ~Ev.g
            THEN /\ seen' = seen \cup {Ev.name}
                 /\ UNCHANGED <<table, count, defs, users, mode, fid, expect>>
            ELSE Reject(<<"def", Ev.name, Ev.content>>)
       ELSE \* "end": every allocated definition was found exactly once
            IF seen = {defs[i].name : i \in 1..Len(defs)}
            THEN UNCHANGED <<table, count, defs, users, seen, mode, fid, expect>>
            ELSE Reject(<<"missing", {defs[i].name : i \in 1..Len(defs)} \ seen>>)

TSpec == TInit /\ [][Step]_tvars

(* the model's invariants hold along every real trace as well *)
TBijection == Bijection
TDistinct  == DistinctDefs
=============================================================================
