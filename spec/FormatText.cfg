SPECIFICATION Spec
CONSTANTS
  MaxToks = 4
  Widths = {1, 2, 3}
  Maxes = {3, 4, 5, 6}
  Overlaps = {0, 1, 2}
  NumLines = {1, 2, 3}
INVARIANT Fits
INVARIANT WordsKept
INVARIANT Discipline
INVARIANT MovedOnlyIfNeeded
CHECK_DEADLOCK FALSE
