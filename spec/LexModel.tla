------------------------------ MODULE LexModel ------------------------------
(***************************************************************************)
(* The lexer as a function from character sequences to token sequences,    *)
(* written after lexer.NextToken and its helpers: blanks and '#' / '//'    *)
(* comments are skipped; two-character operators are recognised by one     *)
(* character of look-ahead; a string token is one or more quoted parts     *)
(* separated by blanks only (joined by a newline), inside which a line     *)
(* break and the blanks after it are one space; a raw token runs to the    *)
(* next backtick and loses its trailing blanks; numbers are digit runs,    *)
(* '0x' hex runs or '-' digit runs; identifiers are letters followed by    *)
(* letters and digits, keywords by table, and an identifier directly in    *)
(* front of a quote is a string type; anything else is one ILLEGAL         *)
(* character.  Like Lowering and ParserModel this is a model of the        *)
(* IMPLEMENTATION; LexAll binds it to the real lexer on every string over  *)
(* a small alphabet.                                                       *)
(*                                                                         *)
(* s: sequence of characters (one-character strings; a multi-byte          *)
(* character is the harness's ASCII escape and counts as one character).   *)
(* Tokens: [type, lit, b, e] with b / e the 0-based character offsets of   *)
(* the token's first character and of the position after its last one.     *)
(***************************************************************************)
EXTENDS Integers, Sequences, TLC

CONSTANT MBLetters          \* the multi-byte characters of the alphabet that are letters

At(s, i) == IF i >= 1 /\ i <= Len(s) THEN s[i] ELSE "EOF"
WS  == {" ", "\t", "\n", "\r"}
NL  == {"\n", "\r"}
Digits == {"0", "1", "2", "3", "4", "5", "6", "7", "8", "9"}
HexDigits == Digits \cup {"a", "b", "c", "d", "e", "f", "A", "B", "C", "D", "E", "F"}
Lower == {"a","b","c","d","e","f","g","h","i","j","k","l","m","n","o","p","q","r","s","t","u","v","w","x","y","z"}
Upper == {"A","B","C","D","E","F","G","H","I","J","K","L","M","N","O","P","Q","R","S","T","U","V","W","X","Y","Z"}
Letters == Lower \cup Upper \cup {"_"} \cup MBLetters

Keywords == [script |-> "SCRIPT", raw |-> "RAW", text |-> "TEXT", movement |-> "MOVEMENT", mart |-> "MART",
             mapscripts |-> "MAPSCRIPTS", format |-> "FORMAT", var |-> "VAR", flag |-> "FLAG", defeated |-> "DEFEATED",
             TRUE |-> "TRUE", FALSE |-> "FALSE", true |-> "TRUE", false |-> "FALSE", if |-> "IF", else |-> "ELSE",
             elif |-> "ELSEIF", do |-> "DO", while |-> "WHILE", break |-> "BREAK", continue |-> "CONTINUE",
             switch |-> "SWITCH", case |-> "CASE", default |-> "DEFAULT", global |-> "GLOBAL", local |-> "LOCAL",
             poryswitch |-> "PORYSWITCH", const |-> "CONST", value |-> "VALUE", moves |-> "MOVES"]
IdentType(lit) == IF lit \in DOMAIN Keywords THEN Keywords[lit] ELSE "IDENT"

RECURSIVE SkipWS(_, _), ToEOL(_, _), SkipLayout(_, _), Run(_, _, _), Text(_, _, _)
SkipWS(s, i) == IF At(s, i) \in WS THEN SkipWS(s, i + 1) ELSE i
ToEOL(s, i) == IF At(s, i) = "\n" THEN i + 1 ELSE IF At(s, i) = "EOF" THEN i ELSE ToEOL(s, i + 1)
IsComment(s, i) == At(s, i) = "#" \/ (At(s, i) = "/" /\ At(s, i + 1) = "/")
SkipLayout(s, i) == LET j == SkipWS(s, i) IN IF IsComment(s, j) THEN SkipLayout(s, ToEOL(s, j)) ELSE j
Run(s, i, set) == IF At(s, i) \in set THEN Run(s, i + 1, set) ELSE i     \* end of the maximal run of `set` from i
Text(s, i, j) == IF i >= j THEN "" ELSE s[i] \o Text(s, i + 1, j)          \* the characters i .. j-1

(* inside a string part, from i: the content and the index of the closing quote (Len+1 if none) *)
RECURSIVE StrBody(_, _, _)
StrBody(s, i, acc) ==
    LET ch == At(s, i) IN
    IF ch = "\"" \/ ch = "EOF" THEN [lit |-> acc, p |-> i]
    ELSE IF ch \in NL THEN StrBody(s, SkipWS(s, i), acc \o " ")
    ELSE StrBody(s, i + 1, acc \o ch)

(* a string token from the opening quote at i *)
RECURSIVE StrParts(_, _, _, _)
StrParts(s, i, acc, first) ==
    LET b    == StrBody(s, i + 1, "")
        lit  == IF first THEN b.lit ELSE acc \o "\n" \o b.lit
        endp == IF b.p > Len(s) THEN Len(s) + 1 ELSE b.p + 1        \* after the closing quote
        nxt  == SkipWS(s, endp)
    IN IF At(s, nxt) = "\"" THEN StrParts(s, nxt, lit, FALSE) ELSE [lit |-> lit, endp |-> endp, next |-> nxt]

RECURSIVE FindTick(_, _)
FindTick(s, i) == IF At(s, i) \in {"`", "EOF"} THEN i ELSE FindTick(s, i + 1)      \* the closing backtick, or Len+1

RECURSIVE TrimRight(_, _, _)
TrimRight(s, i, j) == IF j > i /\ s[j - 1] \in WS THEN TrimRight(s, i, j - 1) ELSE j   \* end index after trimming

Tok(type, lit, b, e) == [type |-> type, lit |-> lit, b |-> b - 1, e |-> e - 1]

Single == ("*" :> "*") @@ ("(" :> "(") @@ (")" :> ")") @@ ("[" :> "[") @@ ("]" :> "]") @@ ("," :> ",") @@ (":" :> ":")
          @@ ("{" :> "{") @@ ("}" :> "}")

(* the tokens from position i on (the last one is EOF) *)
RECURSIVE Lex(_, _, _)
Lex(s, i0, acc) ==
    LET i  == SkipLayout(s, i0)
        ch == At(s, i)
        nx == At(s, i + 1)
    IN
    IF ch = "EOF" THEN Append(acc, Tok("EOF", "", Len(s) + 1, Len(s) + 1))
    ELSE IF ch \in {"=", "!", "<", ">"} /\ nx = "=" THEN Lex(s, i + 2, Append(acc, Tok(ch \o "=", ch \o "=", i, i + 2)))
    ELSE IF ch \in {"=", "!", "<", ">"} THEN Lex(s, i + 1, Append(acc, Tok(ch, ch, i, i + 1)))
    ELSE IF ch \in {"&", "|"} /\ nx = ch THEN Lex(s, i + 2, Append(acc, Tok(ch \o ch, ch \o ch, i, i + 2)))
    ELSE IF ch \in DOMAIN Single THEN Lex(s, i + 1, Append(acc, Tok(ch, ch, i, i + 1)))
    ELSE IF ch = "\"" THEN LET r == StrParts(s, i, "", TRUE) IN Lex(s, r.next, Append(acc, Tok("STRING", r.lit, i, r.endp)))
    ELSE IF ch = "`" THEN
         LET close == FindTick(s, i + 1)
             endp  == IF close > Len(s) THEN Len(s) + 1 ELSE close + 1
             \* the reported end of a raw token also counts the character that follows it, if any
             \* (the lexer reads one character ahead before it takes the column; C19 exempts raw strings)
             rend  == IF endp <= Len(s) THEN endp + 1 ELSE endp
         IN Lex(s, endp, Append(acc, Tok("RAWSTRING", Text(s, i + 1, TrimRight(s, i + 1, close)), i, rend)))
    ELSE IF ch = "0" /\ nx = "x" THEN
         LET e == Run(s, i + 2, HexDigits) IN Lex(s, e, Append(acc, Tok("INT", Text(s, i, e), i, e)))
    ELSE IF ch \in Letters THEN
         LET e   == Run(s, i + 1, Letters \cup Digits)
             lit == Text(s, i, e)
         IN IF At(s, e) = "\""
            THEN LET r == StrParts(s, e, "", TRUE)
                 IN Lex(s, r.next, Append(Append(acc, Tok("STRINGTYPE", lit, i, e)), Tok("STRING", r.lit, e, r.endp)))
            ELSE Lex(s, e, Append(acc, Tok(IdentType(lit), lit, i, e)))
    ELSE IF ch \in Digits THEN
         LET e == Run(s, i + 1, Digits) IN Lex(s, e, Append(acc, Tok("INT", Text(s, i, e), i, e)))
    ELSE IF ch = "-" /\ nx \in Digits THEN
         LET e == Run(s, i + 2, Digits) IN Lex(s, e, Append(acc, Tok("INT", Text(s, i, e), i, e)))
    ELSE Lex(s, i + 1, Append(acc, Tok("ILLEGAL", ch, i, i + 1)))

Tokens(s) == Lex(s, 1, <<>>)
=============================================================================
