------------------------------ MODULE RefineVV ------------------------------
(***************************************************************************)
(* ScriptVM x ScriptVM: the optimized and the unoptimized output of the    *)
(* real compiler for the same program, started at the same label, must     *)
(* execute the same commands and finish the same way under every game      *)
(* state (C05), with the memo discipline of Refine.  The same product      *)
(* compares an inline map script with the same body compiled as a script   *)
(* statement (C08).                                                        *)
(***************************************************************************)
EXTENDS Naturals, Sequences, FiniteSets, TLC, Json, ScriptVM

Cases == ndJsonDeserialize("vvcases.ndjson")

VARIABLES ci, v1, v2, memo, s1, s2, verdict
vars == <<ci, v1, v2, memo, s1, s2, verdict>>

A1 == Cases[ci].a1
A2 == Cases[ci].a2

Prefix(str, p) == Len(str) >= Len(p) /\ SubSeq(str, 1, Len(p)) = p

Dom(loc) ==
    IF Prefix(loc, "sw:")
    THEN VSwitchValues(A1, SubSeq(loc, 4, Len(loc))) \cup VSwitchValues(A2, SubSeq(loc, 4, Len(loc))) \cup {"@other"}
    ELSE IF Prefix(loc, "cmp:") \/ Prefix(loc, "cmpv:") THEN {"lt", "eq", "gt"}
    ELSE {"T", "F"}

Start(A, label) ==
    IF label \in DOMAIN A.lab THEN VGo(A, VInit(A.lab[label]), {})
    ELSE VFinish(VInit(0), "noentry")

Init ==
    /\ ci \in 1..Len(Cases)
    /\ \E i \in 1..Len(Cases[ci].entries) :
         /\ v1 = Start(Cases[ci].a1, Cases[ci].entries[i].l1)
         /\ v2 = Start(Cases[ci].a2, Cases[ci].entries[i].l2)
    /\ memo = <<>> /\ s1 = {} /\ s2 = {}
    /\ verdict = "run"

Read1 ==
    /\ VLoc(A1, v1) # ""
    /\ UNCHANGED <<ci, v2, verdict>>
    /\ IF VLoc(A1, v1) \in DOMAIN memo
       THEN /\ UNCHANGED <<memo, s2>>
            /\ IF v1 \in s1 THEN v1' = VFinish(v1, "diverge") /\ UNCHANGED s1
               ELSE v1' = VStep(A1, v1, memo[VLoc(A1, v1)]) /\ s1' = s1 \cup {v1}
       ELSE \E a \in Dom(VLoc(A1, v1)) :
               /\ memo' = (VLoc(A1, v1) :> a) @@ memo
               /\ v1' = VStep(A1, v1, a)
               /\ s1' = {} /\ s2' = {}

Read2 ==
    /\ VLoc(A1, v1) = ""
    /\ VLoc(A2, v2) # ""
    /\ UNCHANGED <<ci, v1, verdict>>
    /\ IF VLoc(A2, v2) \in DOMAIN memo
       THEN /\ UNCHANGED <<memo, s1>>
            /\ IF v2 \in s2 THEN v2' = VFinish(v2, "diverge") /\ UNCHANGED s2
               ELSE v2' = VStep(A2, v2, memo[VLoc(A2, v2)]) /\ s2' = s2 \cup {v2}
       ELSE \E a \in Dom(VLoc(A2, v2)) :
               /\ memo' = (VLoc(A2, v2) :> a) @@ memo
               /\ v2' = VStep(A2, v2, a)
               /\ s1' = {} /\ s2' = {}

(* The two outputs may name their generated labels differently; an ending  *)
(* "leave:<L>" is compared by name, everything else literally.  A command  *)
(* whose tokens differ only in a renamed hoisted label is compared through *)
(* the optional renaming map Cases[ci].ren (name in a1 -> name in a2).     *)
Ren(t) == IF "ren" \in DOMAIN Cases[ci] /\ t \in DOMAIN Cases[ci].ren THEN Cases[ci].ren[t] ELSE t
Obs1 == LET o == VObs(A1, v1) IN
        IF o.k = "cmd" THEN [k |-> "cmd", toks |-> [i \in 1..Len(o.toks) |-> Ren(o.toks[i])]] ELSE o
Obs2 == VObs(A2, v2)

Sync ==
    /\ VLoc(A1, v1) = "" /\ VLoc(A2, v2) = ""
    /\ UNCHANGED ci
    /\ IF Obs1 # Obs2
       THEN verdict' = "diverged" /\ UNCHANGED <<v1, v2, memo, s1, s2>>
       ELSE IF v1.pc = 0
       THEN verdict' = "ok" /\ UNCHANGED <<v1, v2, memo, s1, s2>>
       ELSE /\ v1' = VStep(A1, v1, "-")
            /\ v2' = VStep(A2, v2, "-")
            /\ memo' = <<>> /\ s1' = {} /\ s2' = {}
            /\ UNCHANGED verdict

Next == verdict = "run" /\ (Read1 \/ Read2 \/ Sync)
Spec == Init /\ [][Next]_vars

Report == verdict = "diverged" => PrintT(<<"DIVERGED", ci, Cases[ci].id, Obs1, Obs2>>)

(* C05: both outputs define the same hoisted data (name, lines) and the    *)
(* same user-visible labels (name, scope).  Evaluated once per case.       *)
SameData == {Cases[ci].defs1[i] : i \in 1..Len(Cases[ci].defs1)}
              = {Cases[ci].defs2[i] : i \in 1..Len(Cases[ci].defs2)}
            /\ {Cases[ci].vis1[i] : i \in 1..Len(Cases[ci].vis1)}
              = {Cases[ci].vis2[i] : i \in 1..Len(Cases[ci].vis2)}
ReportData == ~SameData => PrintT(<<"BADEND", ci, Cases[ci].id, "data or visible labels differ">>)
NoDivergence == verdict # "diverged"
=============================================================================
