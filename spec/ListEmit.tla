------------------------------ MODULE ListEmit ------------------------------
(***************************************************************************)
(* C14: each case is one movement statement, moves() argument or mart of a *)
(* source file: its items as written (name, multiplier) and what the REAL  *)
(* compiler emitted under its label (run-length encoded), or the error.    *)
(***************************************************************************)
EXTENDS Emission, Json

Cases == ndJsonDeserialize("lists.ndjson")
VARIABLE ci

Term(c) == IF c.kind = "mart" THEN "ITEM_NONE" ELSE "step_end"

Holds(c) ==
    IF \E i \in 1..Len(c.items) : ~c.items[i].mulok
    THEN c.err                                              \* a bad multiplier is rejected
    ELSE /\ ~c.err /\ c.found
         /\ c.rle = ExpectedList(c.items, Term(c))           \* order, expansion, one terminator, nothing after it
         /\ (c.kind = "mart" => c.aligned /\ c.all2byte)     \* .align 2 before the label, one .2byte per item

Init == ci \in 1..Len(Cases)
Next == UNCHANGED ci
Spec == Init /\ [][Next]_ci
Report == ~Holds(Cases[ci]) => PrintT(<<"DIVERGED", ci, Cases[ci].id>>)
=============================================================================
