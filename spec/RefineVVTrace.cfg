SPECIFICATION Spec
INVARIANT NoDivergence
CHECK_DEADLOCK FALSE
