----------------------------- MODULE LineMarkers ----------------------------
(***************************************************************************)
(* C16: line markers are transparent and name the right source line.       *)
(* Each case is one source file compiled three times by the REAL compiler: *)
(*   lm      with markers and an input path                                *)
(*   plain   with -lm=false                                                *)
(*   nopath  with markers enabled but no input path                        *)
(* markers: for every marker line of lm, the line number and file it       *)
(* names and the span [lo, hi] of source lines on which the construct      *)
(* that produced the FOLLOWING output line was written (known = FALSE if   *)
(* the harness could not tell which construct it is).                      *)
(***************************************************************************)
EXTENDS Naturals, Sequences, TLC, Json

Cases == ndJsonDeserialize("markers.ndjson")
VARIABLE ci

IsMarker(ln) == Len(ln) >= 2 /\ SubSeq(ln, 1, 2) = "# "
Strip(lines) == SelectSeq(lines, LAMBDA ln : ~IsMarker(ln))

Transparent(c) == Strip(c.lm) = c.plain
NoPathNoMarkers(c) == c.nopath = c.plain
MarkerOK(c, m) == /\ m.file = c.path
                  /\ m.n >= 1 /\ m.n <= c.nlines
                  /\ (m.known => m.lo <= m.n /\ m.n <= m.hi)
Holds(c) == /\ ~c.err
            /\ Transparent(c) /\ NoPathNoMarkers(c)
            /\ \A i \in 1..Len(c.markers) : MarkerOK(c, c.markers[i])

Failing(c) == (IF Transparent(c) THEN {} ELSE {"Transparent"})
              \cup (IF NoPathNoMarkers(c) THEN {} ELSE {"NoPathNoMarkers"})
              \cup {c.markers[i].what : i \in {i \in 1..Len(c.markers) : ~MarkerOK(c, c.markers[i])}}

Init == ci \in 1..Len(Cases)
Next == UNCHANGED ci
Spec == Init /\ [][Next]_ci
Report == ~Holds(Cases[ci]) => PrintT(<<"DIVERGED", ci, Cases[ci].id, Failing(Cases[ci])>>)
=============================================================================
