-------------------------------- MODULE GenFmt ------------------------------
(***************************************************************************)
(* Input family for the binding of C07: every token list of length <=      *)
(* MaxToks over words of width 1..3 and the four break codes (as indices:  *)
(* 1..3 a word of that width, 4 \n, 5 \l, 6 \p, 7 \N).  The parameter grid *)
(* (max, overlap, numLines, space width) is applied by the harness.        *)
(***************************************************************************)
EXTENDS Naturals, Sequences, FiniteSets, TLC, Json, SequencesExt
CONSTANT MaxToks
Lists == UNION {[1..n -> 1..7] : n \in 0..MaxToks}
ASSUME PrintT(<<"GenFmt", Cardinality(Lists)>>)
ASSUME ndJsonSerialize("fmt.ndjson", SetToSeq(Lists))
VARIABLE x
Init == x = 0
Next == x' = x
=============================================================================
