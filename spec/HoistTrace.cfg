SPECIFICATION TSpec
CONSTANTS
  Scripts = {}
  Contents = {}
  Types = {}
INVARIANT TBijection
INVARIANT TDistinct
CHECK_DEADLOCK FALSE
