------------------------------- MODULE GenArgs ------------------------------
(***************************************************************************)
(* Input family for C10: command arguments made of identifiers, numbers    *)
(* (decimal, hex with lower- and upper-case digits, negative), operators,  *)
(* keywords and nested parentheses.  "E" stands for a multi-byte letter    *)
(* (replaced by the harness); "xD3" and "D12" for an identifier and a number with non-ASCII decimal digits.                                              *)
(***************************************************************************)
EXTENDS Naturals, Sequences, FiniteSets, TLC, Json, SequencesExt

Idents   == {"A", "VAR_TEMP_1", "nE", "_x9", "xD3"}
Numbers  == {"0", "7", "100", "0x1f", "0xFF", "0x0203abcd", "-5", "-0", "D12"}
Ops      == {"+", "*", "==", "!=", "<", "<=", ">", ">=", "!", "&&", "||", "|", "=", "-", "/", "%", "&", "^", "~", "[", "]", "@", "."}
Keywords == {"var", "flag", "defeated", "true", "FALSE", "local", "global", "value", "if", "else", "while",
             "end", "case", "default", "switch", "script", "const", "raw"}
Tok == Idents \cup Numbers \cup Ops \cup Keywords

Args == {<<t>> : t \in Tok}
        \cup {<<t, u>> : t \in Tok, u \in Tok}
        \cup {<<"(", t, ")">> : t \in Tok}
        \cup {<<t, "(", u, ")">> : t \in Idents \cup Keywords, u \in Tok}
        \cup {<<"(", "(", t, ")", u, ")">> : t \in Tok, u \in Ops \cup Numbers}
        \cup {<<"(", t, ")", u, v>> : t \in Numbers, u \in Ops, v \in Idents \cup Numbers}

ASSUME PrintT(<<"GenArgs", Cardinality(Args)>>)
ASSUME ndJsonSerialize("args.ndjson", SetToSeq(Args))

VARIABLE x
Init == x = 0
Next == x' = x
=============================================================================
