------------------------------ MODULE ListModel -----------------------------
(***************************************************************************)
(* Movement and mart bodies as the parser reads them and the emitter       *)
(* writes them (parser.parseMovementValue / parseMartValue,                *)
(* emitter.emitMovementStatement / emitMartStatement).                     *)
(* Movement: identifiers are steps; "name * INT" stands for INT copies,    *)
(* INT in 1..9999 (decimal or hex); commas are skipped wherever they       *)
(* stand; anything else is an error.  Output: the steps up to and          *)
(* including the first step_end, or all of them and one step_end.          *)
(* Mart: identifiers only (no commas, no multipliers).  Output: one        *)
(* .2byte per item before the first ITEM_NONE, then .2byte ITEM_NONE.      *)
(* toks: the tokens between "{" and the closing "}" (no braces inside).    *)
(* A model of the implementation; ListAll binds it to the real compiler.   *)
(***************************************************************************)
EXTENDS Integers, Sequences, TLC

Idents == {"a", "b", "step_end", "ITEM_NONE"}
IntVal == [x \in {"3", "0", "10000", "0x2", "1"} |->
            CASE x = "3" -> 3 [] x = "0" -> 0 [] x = "10000" -> 10000 [] x = "0x2" -> 2 [] x = "1" -> 1]
At(toks, i) == IF i >= 1 /\ i <= Len(toks) THEN toks[i] ELSE "END"
LErr == [err |-> TRUE, lines |-> <<>>]

Copies(x, n) == [k \in 1..n |-> x]

RECURSIVE Steps(_, _, _)
Steps(toks, j, acc) ==
    LET t == At(toks, j) IN
    IF t = "END" THEN [err |-> FALSE, items |-> acc]
    ELSE IF t = "," THEN Steps(toks, j + 1, acc)
    ELSE IF t \notin Idents THEN [err |-> TRUE, items |-> <<>>]
    ELSE IF At(toks, j + 1) = "*"
         THEN LET m == At(toks, j + 2) IN
              IF m \notin DOMAIN IntVal THEN [err |-> TRUE, items |-> <<>>]
              ELSE IF IntVal[m] <= 0 \/ IntVal[m] > 9999 THEN [err |-> TRUE, items |-> <<>>]
              ELSE Steps(toks, j + 3, acc \o Copies(t, IntVal[m]))
         ELSE Steps(toks, j + 1, Append(acc, t))

RECURSIVE Items(_, _, _)
Items(toks, j, acc) ==
    LET t == At(toks, j) IN
    IF t = "END" THEN [err |-> FALSE, items |-> acc]
    ELSE IF t \in Idents THEN Items(toks, j + 1, Append(acc, t))
    ELSE [err |-> TRUE, items |-> <<>>]

(* the items before the first terminator *)
RECURSIVE Before(_, _)
Before(items, term) == IF items = <<>> \/ items[1] = term THEN <<>> ELSE <<items[1]>> \o Before(Tail(items), term)

Movement(toks) == LET r == Steps(toks, 1, <<>>) IN
    IF r.err THEN LErr
    ELSE [err |-> FALSE, lines |-> [k \in 1..Len(Before(r.items, "step_end")) + 1 |->
            IF k <= Len(Before(r.items, "step_end")) THEN "\t" \o Before(r.items, "step_end")[k] ELSE "\tstep_end"]]

Mart(toks) == LET r == Items(toks, 1, <<>>) IN
    IF r.err THEN LErr
    ELSE [err |-> FALSE, lines |-> [k \in 1..Len(Before(r.items, "ITEM_NONE")) + 1 |->
            IF k <= Len(Before(r.items, "ITEM_NONE")) THEN "\t.2byte " \o Before(r.items, "ITEM_NONE")[k] ELSE "\t.2byte ITEM_NONE"]]

List(kind, toks) == IF kind = "mart" THEN Mart(toks) ELSE Movement(toks)
=============================================================================
