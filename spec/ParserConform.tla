---------------------------- MODULE ParserConform ----------------------------
(***************************************************************************)
(* Each case: the tokens of a written condition, the generator's tree      *)
(* (what the text means by the usual reading: gen, with "not" nodes) and   *)
(* the tree the REAL parser built (real).                                  *)
(***************************************************************************)
EXTENDS ParserModel, Json
Cases == ndJsonDeserialize("parser.ndjson")
VARIABLE ci
Init == ci \in 1..Len(Cases)
Next == UNCHANGED ci
Spec == Init /\ [][Next]_ci

Model(c) == Parse(c.toks)
Design(c)  == ~IsErr(Model(c)) /\ At(c.toks, Model(c).p) = ")" /\ Equivalent(Model(c).t, c.gen)
Conform(c) == ~IsErr(Model(c)) /\ Model(c).t = c.real

Report == /\ (~Design(Cases[ci]) => PrintT(<<"DIVERGED", ci, Cases[ci].id, "design">>))
          /\ (~Conform(Cases[ci]) => PrintT(<<"DIVERGED", ci, Cases[ci].id, "conformance", Model(Cases[ci])>>))
=============================================================================
