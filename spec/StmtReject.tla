------------------------------ MODULE StmtReject -----------------------------
(***************************************************************************)
(* C20 on every small program with exactly ONE of the listed violations:   *)
(* a macro-token string whose first problem (StmtModel!FirstError) is a    *)
(* break outside a loop or switch, a continue outside a loop or not last   *)
(* in its block, a repeated case value or a second default, and which is   *)
(* a well-formed program once that one token is repaired (the break or     *)
(* continue replaced by a command; the repeated entry removed... by the    *)
(* other case value if that is free).  Such a program must be rejected,    *)
(* and on the line of that token (every macro token is written on its own  *)
(* line, after the line "script S {").                                     *)
(* c.toks, c.err, c.eline (line of the reported error, 0 if none).         *)
(***************************************************************************)
EXTENDS StmtModel, Json
Cases0 == ndJsonDeserialize("stmtall.ndjson")
VARIABLE ci
Init == ci \in 1..Len(Cases0)
Next == UNCHANGED ci
Spec == Init /\ [][Next]_ci

Semantic == {"break", "continue", "dupcase", "twodefault"}
Repl(toks, p, t) == [toks EXCEPT ![p] = t]
\* the candidates for repairing the offending token
Repairs(toks, e) ==
    IF e.kind \in {"break", "continue"} THEN {Repl(toks, e.pos, "c")}
    ELSE {Repl(toks, e.pos, t) : t \in {"c1", "c2", "df"} \ {toks[e.pos]}}
OneViolation(toks) == LET e == FirstError(toks) IN e.kind \in Semantic /\ \E r \in Repairs(toks, e) : Accepts(r)
Holds(c) == OneViolation(c.toks) => (c.err /\ c.eline = FirstError(c.toks).pos + 1)
Report == ~Holds(Cases0[ci]) => PrintT(<<"DIVERGED", ci, Cases0[ci].id, "violation", FirstError(Cases0[ci].toks)>>)
=============================================================================
