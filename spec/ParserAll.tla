------------------------------ MODULE ParserAll ------------------------------
(***************************************************************************)
(* ParserModel against the REAL parser on every token string of GenCond,   *)
(* i.e. mostly ill-formed conditions: the model and the parser must accept *)
(* the same strings and build the same tree for those.                     *)
(*                                                                         *)
(* What "accept" means is taken from parseConditionExpression as it is:    *)
(* after the expression the NEXT token must be "{"; the token the cursor   *)
(* is on is never checked.  So the condition's closing ")" may be replaced *)
(* by any one token ("if (flag(A) x {" compiles) - a laxity of the code    *)
(* that no listed property forbids; it is modelled, not hidden.            *)
(* c.toks = <<"(", w..., >> and the text continues with "{ yes } }".       *)
(***************************************************************************)
EXTENDS ParserModel, Json
Cases == ndJsonDeserialize("parserall.ndjson")
VARIABLE ci
Init == ci \in 1..Len(Cases)
Next == UNCHANGED ci
Spec == Init /\ [][Next]_ci

Model(c)  == Parse(c.toks)
\* (a leaf is several real tokens, "flag ( X )": with the cursor on its first one the next is "(")
Accept(c) == ~IsErr(Model(c)) /\ Model(c).p = Len(c.toks) /\ ~IsLeaf(c.toks[Len(c.toks)])
Conform(c) == /\ Accept(c) <=> c.real.k \notin {"error", "panic"}
              /\ Accept(c) => Model(c).t = c.real

Report == ~Conform(Cases[ci]) => PrintT(<<"DIVERGED", ci, Cases[ci].id, "conformance", Model(Cases[ci])>>)
=============================================================================
