----------------------------- MODULE MapScripts -----------------------------
(***************************************************************************)
(* C08: each case is one mapscripts statement of a source file.            *)
(*   name, entries   the statement as written: entries of kind plain       *)
(*                   (type, target), inline (type) or table (type, rows    *)
(*                   [var, val, kind, target])                             *)
(*   header, hterm   the map_script lines the REAL compiler emitted under  *)
(*                   the statement's label and whether they end in .byte 0 *)
(*   tables          the emitted tables: label, rows [var, val, target],   *)
(*                   term (ends in .2byte 0)                               *)
(*   defs            for every label of the output: how often it is        *)
(*                   defined and whether it is global                      *)
(* The behaviour of the inline scripts is checked by the Refine product.   *)
(***************************************************************************)
EXTENDS Naturals, Sequences, FiniteSets, TLC, Json

Cases == ndJsonDeserialize("mapscripts.ndjson")
VARIABLE ci

InlineName(c, e) == c.name \o "_" \o e.type
RowName(c, e, i) == c.name \o "_" \o e.type \o "_" \o ToString(i - 1)

NonTables(c) == SelectSeq(c.entries, LAMBDA e : e.kind # "table")
TablesOf(c)  == SelectSeq(c.entries, LAMBDA e : e.kind = "table")

HeaderEntry(c, e) == [type |-> e.type,
                      target |-> IF e.kind = "plain" THEN e.target ELSE InlineName(c, e)]
ExpectedHeader(c) == [i \in 1..Len(NonTables(c)) |-> HeaderEntry(c, NonTables(c)[i])]
                     \o [i \in 1..Len(TablesOf(c)) |-> HeaderEntry(c, TablesOf(c)[i])]

ExpectedRows(c, e) == [i \in 1..Len(e.rows) |->
                          [var |-> e.rows[i].var, val |-> e.rows[i].val,
                           target |-> IF e.rows[i].kind = "plain" THEN e.rows[i].target ELSE RowName(c, e, i)]]

(* every inline script must exist exactly once, as a local label *)
InlineLabels(c) ==
    {InlineName(c, c.entries[i]) : i \in {i \in 1..Len(c.entries) : c.entries[i].kind = "inline"}}
    \cup UNION {{RowName(c, c.entries[i], j) : j \in {j \in 1..Len(c.entries[i].rows) : c.entries[i].rows[j].kind = "inline"}}
                : i \in {i \in 1..Len(c.entries) : c.entries[i].kind = "table"}}

DefinedOnceLocal(c, l) == l \in DOMAIN c.defs /\ c.defs[l].n = 1 /\ ~c.defs[l].g

Holds(c) ==
    /\ c.found
    /\ c.header = ExpectedHeader(c) /\ c.hterm
    /\ Len(c.tables) = Len(TablesOf(c))
    /\ \A i \in 1..Len(TablesOf(c)) :
          /\ c.tables[i].label = InlineName(c, TablesOf(c)[i])
          /\ c.tables[i].rows = ExpectedRows(c, TablesOf(c)[i])
          /\ c.tables[i].term
          /\ DefinedOnceLocal(c, c.tables[i].label)
    /\ \A l \in InlineLabels(c) : DefinedOnceLocal(c, l)

Init == ci \in 1..Len(Cases)
Next == UNCHANGED ci
Spec == Init /\ [][Next]_ci
Report == ~Holds(Cases[ci]) => PrintT(<<"DIVERGED", ci, Cases[ci].id>>)
=============================================================================
