----------------------------- MODULE MapScripts -----------------------------
(***************************************************************************)
(* C08: each case is one mapscripts statement of a source file.            *)
(*   name, entries   the statement as written: entries of kind plain       *)
(*                   (type, target), inline (type) or table (type, rows    *)
(*                   [var, val, kind, target])                             *)
(*   header, hterm   the map_script lines the REAL compiler emitted under  *)
(*                   the statement's label and whether they end in .byte 0 *)
(*   tables          the emitted tables: label, rows [var, val, target],   *)
(*                   term (ends in .2byte 0)                               *)
(*   defs            for every label of the output: how often it is        *)
(*                   defined and whether it is global                      *)
(* The behaviour of the inline scripts is checked by the Refine product.   *)
(***************************************************************************)
EXTENDS Naturals, Sequences, FiniteSets, TLC, Json

Cases == ndJsonDeserialize("mapscripts.ndjson")
VARIABLE ci

NonTables(c) == SelectSeq(c.entries, LAMBDA e : e.kind # "table")
TablesOf(c)  == SelectSeq(c.entries, LAMBDA e : e.kind = "table")
Expected(c)  == NonTables(c) \o TablesOf(c)        \* plain and inline entries in source order, then the tables

DefinedOnceLocal(c, l) == l \in DOMAIN c.defs /\ c.defs[l].n = 1 /\ ~c.defs[l].g

(* The header: one map_script line per entry, in that order; a plain entry names the    *)
(* author's target, an inline or table entry names a label that the output defines        *)
(* exactly once, locally (the compiler chooses the name).                                 *)
HeaderOK(c) ==
    /\ Len(c.header) = Len(Expected(c)) /\ c.hterm
    /\ \A i \in 1..Len(c.header) :
          LET e == Expected(c)[i] IN
          /\ c.header[i].type = e.type
          /\ IF e.kind = "plain" THEN c.header[i].target = e.target
                                  ELSE DefinedOnceLocal(c, c.header[i].target)

RowsOK(c, e, t) ==
    /\ Len(t.rows) = Len(e.rows) /\ t.term
    /\ \A j \in 1..Len(e.rows) :
          /\ t.rows[j].var = e.rows[j].var /\ t.rows[j].val = e.rows[j].val
          /\ IF e.rows[j].kind = "plain" THEN t.rows[j].target = e.rows[j].target
                                         ELSE DefinedOnceLocal(c, t.rows[j].target)

(* the table of the k-th table entry is the one emitted under the label its header line names *)
TablesOK(c) ==
    \A k \in 1..Len(TablesOf(c)) :
        LET tl == c.header[Len(NonTables(c)) + k].target IN
        \E i \in 1..Len(c.tables) : c.tables[i].label = tl /\ RowsOK(c, TablesOf(c)[k], c.tables[i])

(* every compiler-named script / table has its own label *)
GeneratedTargets(c) ==
    [i \in 1..Len(c.header) |-> c.header[i].target]
DistinctGenerated(c) ==
    \A i, j \in 1..Len(c.header) :
        (i # j /\ Expected(c)[i].kind # "plain" /\ Expected(c)[j].kind # "plain") => c.header[i].target # c.header[j].target

Holds(c) == c.found /\ HeaderOK(c) /\ TablesOK(c) /\ DistinctGenerated(c)

Init == ci \in 1..Len(Cases)
Next == UNCHANGED ci
Spec == Init /\ [][Next]_ci
Report == ~Holds(Cases[ci]) => PrintT(<<"DIVERGED", ci, Cases[ci].id>>)
=============================================================================
