------------------------------ MODULE FormatLex -----------------------------
(***************************************************************************)
(* From the characters of a text to the tokens of FormatStep, as           *)
(* parser.getNextWord and getWordPixelWidth do it: blanks separate words   *)
(* except inside braces; a backslash followed by n / l / p / N is a break  *)
(* code wherever it stands outside braces (it ends the word before it);    *)
(* any other backslash is an ordinary character; a closing brace that      *)
(* closes nothing is an ordinary character; a brace that is never closed   *)
(* swallows the rest of the text.  Width of a word: every "{...}" (from a  *)
(* "{" to the first "}" after it) counts as one code, every other          *)
(* character by itself.  With FormatStep!StepTok this gives the whole      *)
(* function FormatText on character strings (Formatted).                   *)
(*                                                                         *)
(* WellFormed picks the strings whose reading the property itself fixes    *)
(* (balanced, un-nested braces; every backslash outside braces starts one  *)
(* of the four codes; none inside): on those a difference between the real *)
(* function and Formatted is a violation of C07, elsewhere only a note.    *)
(***************************************************************************)
EXTENDS Integers, Sequences, TLC, FormatStep

At(s, i) == IF i >= 1 /\ i <= Len(s) THEN s[i] ELSE "EOF"
RECURSIVE Text(_, _, _)
Text(s, i, j) == IF i >= j THEN "" ELSE s[i] \o Text(s, i + 1, j)

St0(i) == [escape |-> FALSE, endp |-> i, start |-> i, nonspace |-> FALSE, regular |-> FALSE, endOnNext |-> FALSE, level |-> 0]

(* getNextWord on s from position p: [w, next] (w = "" when only blanks are left) *)
RECURSIVE Scan(_, _, _)
Scan(s, p, st) ==
    IF p > Len(s)
    THEN IF st.nonspace THEN [w |-> Text(s, st.start, Len(s) + 1), next |-> Len(s) + 1] ELSE [w |-> "", next |-> Len(s) + 1]
    ELSE LET ch == s[p] IN
         IF st.endOnNext THEN [w |-> Text(s, st.start, p), next |-> p]
         ELSE IF st.escape /\ ch \in {"l", "n", "p", "N"}
              THEN IF st.regular THEN [w |-> Text(s, st.start, st.endp), next |-> st.endp]
                   ELSE Scan(s, p + 1, [st EXCEPT !.endOnNext = TRUE])
         ELSE IF ch = "\\" /\ st.level = 0
              THEN Scan(s, p + 1, [st EXCEPT !.escape = TRUE, !.start = IF st.regular THEN @ ELSE p, !.nonspace = TRUE, !.endp = p])
         ELSE IF ch = " "
              THEN IF st.nonspace /\ st.level = 0 THEN [w |-> Text(s, st.start, p), next |-> p]
                   ELSE Scan(s, p + 1, [st EXCEPT !.escape = FALSE])
         ELSE Scan(s, p + 1, [st EXCEPT !.start = IF st.nonspace THEN @ ELSE p, !.regular = TRUE, !.nonspace = TRUE, !.escape = FALSE,
                                        !.level = IF ch = "{" THEN @ + 1 ELSE IF ch = "}" /\ @ > 0 THEN @ - 1 ELSE @])
NextWord(s, p) == Scan(s, p, St0(p))

(* the words of s, as [text, from] *)
RECURSIVE Words(_, _, _)
Words(s, p, acc) == LET r == NextWord(s, p) IN IF r.w = "" THEN acc ELSE Words(s, r.next, Append(acc, r.w))

(* width of a word given as a string: codes and single characters count 1 each *)
RECURSIVE FirstClose(_, _), WidthFrom(_, _)
FirstClose(w, i) == IF i > Len(w) THEN 0 ELSE IF SubSeq(w, i, i) = "}" THEN i ELSE FirstClose(w, i + 1)
WidthFrom(w, i) ==
    IF i > Len(w) THEN 0
    ELSE IF SubSeq(w, i, i) = "{" /\ FirstClose(w, i + 1) > 0 THEN 1 + WidthFrom(w, FirstClose(w, i + 1) + 1)
    ELSE 1 + WidthFrom(w, i + 1)

Breaks == {cN, cL, cP, cBigN}
TokOf(w) == IF w \in Breaks THEN [k |-> "b", w |-> 0, c |-> w] ELSE [k |-> "w", w |-> WidthFrom(w, 1), c |-> ""]

(* FormatText(text, max, ov, font with every character and code 1 px wide, nl) *)
RECURSIVE RunT(_, _, _, _), Cat(_, _, _)
RunT(P, T, i, s) == IF i > Len(T) THEN Finish(s) ELSE RunT(P, T, i + 1, StepTok(P, T, i, s))
JoinWords(ws, words) == LET RECURSIVE J(_) 
                            J(k) == IF k > Len(ws) THEN "" ELSE (IF k > 1 THEN " " ELSE "") \o words[ws[k]] \o J(k + 1)
                        IN J(1)
Cat(lines, words, j) == IF j > Len(lines) THEN ""
                        ELSE JoinWords(lines[j].ws, words) \o lines[j].end \o (IF lines[j].how = "last" THEN "" ELSE "\n") \o Cat(lines, words, j + 1)
Formatted(P, s) ==
    LET words == Words(s, 1, <<>>)
        T     == [i \in 1..Len(words) |-> TokOf(words[i])]
    IN Cat(RunT(P, T, 1, S0), words, 1)

(* the strings whose tokenisation the property's own vocabulary fixes *)
RECURSIVE WF(_, _, _)
WF(s, i, depth) ==
    IF i > Len(s) THEN depth = 0
    ELSE LET ch == s[i] IN
         IF ch = "{" THEN depth = 0 /\ WF(s, i + 1, 1)
         ELSE IF ch = "}" THEN depth = 1 /\ WF(s, i + 1, 0)
         ELSE IF ch = "\\" THEN depth = 0 /\ At(s, i + 1) \in {"n", "l", "p", "N"} /\ WF(s, i + 2, 0)
         ELSE WF(s, i + 1, depth)
WellFormed(s) == WF(s, 1, 0)
=============================================================================
