------------------------------- MODULE VMOnly -------------------------------
(***************************************************************************)
(* ScriptVM alone, from every code label of an output, under every answer  *)
(* at every read (no memo: run-off is structural, so the coarsest          *)
(* environment is the right one).  C04 d: execution never runs past the    *)
(* end of a script, never jumps to a generated label that does not exist,  *)
(* never branches on a comparison that was not made.                       *)
(***************************************************************************)
EXTENDS Naturals, Sequences, FiniteSets, TLC, Json, ScriptVM

Cases == ndJsonDeserialize("static.ndjson")

VARIABLES ci, v
vars == <<ci, v>>
A == Cases[ci]

Prefix(str, p) == Len(str) >= Len(p) /\ SubSeq(str, 1, Len(p)) = p
Dom(loc) ==
    IF Prefix(loc, "sw:") THEN VSwitchValues(A, SubSeq(loc, 4, Len(loc))) \cup {"@other"}
    ELSE IF Prefix(loc, "cmp:") \/ Prefix(loc, "cmpv:") THEN {"lt", "eq", "gt"}
    ELSE {"T", "F"}

CodeLabels(c) == {i \in 1..Len(c.asm) : c.asm[i].k = "label" /\ c.asm[i].role \in {"entry", "sub", "user"}}

Init == /\ ci \in 1..Len(Cases)
        /\ \E i \in CodeLabels(Cases[ci]) : v = VGo(Cases[ci], VInit(i), {})

Next == /\ v.pc # 0
        /\ UNCHANGED ci
        /\ IF VLoc(A, v) # "" THEN \E a \in Dom(VLoc(A, v)) : v' = VStep(A, v, a)
           ELSE v' = VStep(A, v, "-")

Spec == Init /\ [][Next]_vars

BadEnd(how) == how = "runoff" \/ Prefix(how, "dangling:") \/ Prefix(how, "undef:")
Report == (v.pc = 0 /\ BadEnd(v.how)) => PrintT(<<"BADEND", ci, Cases[ci].id, v.how>>)
NoBadEnd == ~(v.pc = 0 /\ BadEnd(v.how))
=============================================================================
