SPECIFICATION Spec
INVARIANT NoDivergence
INVARIANT NoRunOff
CHECK_DEADLOCK FALSE
