------------------------------ MODULE CmdModel ------------------------------
(***************************************************************************)
(* Straight-line script bodies as the parser reads them and the emitter    *)
(* writes them (parser.parseStatement / tryParseLabelStatement /           *)
(* parseCommandStatement, emitter.renderCommandStatement): a statement     *)
(* starts with an identifier; "name :" and "name ( global|local ) :" are   *)
(* labels (four tokens of look-ahead); otherwise it is a command, with an  *)
(* argument list if "(" follows: tokens up to the ")" at depth 0, a new    *)
(* argument at EVERY comma (at any depth), the tokens of an argument       *)
(* joined by one blank, a trailing empty argument dropped; the line is the *)
(* name, a blank, the arguments joined by ", ".  A model of the            *)
(* implementation; CmdAll binds it to the real compiler on every token     *)
(* string over a small alphabet, ill-formed ones included.                 *)
(* toks: the tokens between "script S {" and "}".                          *)
(***************************************************************************)
EXTENDS Integers, Sequences, TLC

Idents == {"a", "b"}
At(toks, i) == IF i >= 1 /\ i <= Len(toks) THEN toks[i] ELSE "EOF"
Err == [err |-> TRUE, lines |-> <<>>]

RECURSIVE JoinWith(_, _)
JoinWith(ss, sep) == IF ss = <<>> THEN "" ELSE IF Len(ss) = 1 THEN ss[1] ELSE ss[1] \o sep \o JoinWith(Tail(ss), sep)

Render(name, args) == "\t" \o name \o (IF args = <<>> THEN "" ELSE " " \o JoinWith(args, ", "))

(* the argument list from token j on *)
RECURSIVE Args(_, _, _, _, _)
Args(toks, j, depth, parts, args) ==
    LET t == At(toks, j) IN
    IF t = "EOF" THEN [err |-> TRUE, args |-> <<>>, next |-> j]       \* the script's "}" is swallowed, then the input ends
    ELSE IF t = ")" /\ depth = 0
    THEN [err |-> FALSE, args |-> IF parts = <<>> THEN args ELSE Append(args, JoinWith(parts, " ")), next |-> j + 1]
    ELSE IF t = "," THEN Args(toks, j + 1, depth, <<>>, Append(args, JoinWith(parts, " ")))
    ELSE IF t = "(" THEN Args(toks, j + 1, depth + 1, Append(parts, t), args)
    ELSE IF t = ")" THEN Args(toks, j + 1, depth - 1, Append(parts, t), args)
    ELSE Args(toks, j + 1, depth, Append(parts, t), args)

RECURSIVE Stmts(_, _, _)
Stmts(toks, i, acc) ==
    IF i > Len(toks) THEN [err |-> FALSE, lines |-> acc]
    ELSE LET t == toks[i] IN
         IF t \notin Idents THEN Err
         ELSE IF At(toks, i + 1) = ":" THEN Stmts(toks, i + 2, Append(acc, t \o ":"))
         ELSE IF At(toks, i + 1) = "(" /\ At(toks, i + 2) \in {"global", "local"} /\ At(toks, i + 3) = ")" /\ At(toks, i + 4) = ":"
              THEN Stmts(toks, i + 5, Append(acc, t \o (IF At(toks, i + 2) = "global" THEN "::" ELSE ":")))
         ELSE IF At(toks, i + 1) = "("
              THEN LET r == Args(toks, i + 2, 0, <<>>, <<>>)
                   IN IF r.err THEN Err ELSE Stmts(toks, r.next, Append(acc, Render(t, r.args)))
         ELSE Stmts(toks, i + 1, Append(acc, "\t" \o t))

Body(toks) == Stmts(toks, 1, <<>>)
=============================================================================
