------------------------------ MODULE Emission ------------------------------
(***************************************************************************)
(* What the data side of the output must look like: text terminators and   *)
(* directives, movement and mart lists (run-length encoded so that         *)
(* 'step * 9999' stays cheap), map script headers and tables.  Pure        *)
(* operators; the *Trace / *Cases modules apply them to recorded outputs.  *)
(***************************************************************************)
EXTENDS Naturals, Sequences, FiniteSets, TLC

EndsWith(s, suf) == Len(s) >= Len(suf) /\ SubSeq(s, Len(s) - Len(suf) + 1, Len(s)) = suf
StartsWith(s, p) == Len(s) >= Len(p) /\ SubSeq(s, 1, Len(p)) = p

(* ---- text ---- *)
(* The terminator of a string type: "$" for plain ("") and braille, "\0"   *)
(* (backslash, zero) for ascii, none for any other type.                   *)
Suffix(type) == CASE type = "" -> "$"
                  [] type = "braille" -> "$"
                  [] type = "ascii" -> "\\0"
                  [] OTHER -> ""

Terminate(content, type) ==
    IF Suffix(type) = "" \/ EndsWith(content, Suffix(type)) THEN content
    ELSE content \o Suffix(type)

Directive(type) == IF type = "" THEN ".string" ELSE "." \o type

RECURSIVE Concat(_)
Concat(parts) == IF parts = <<>> THEN "" ELSE Head(parts) \o Concat(Tail(parts))

(* A text with source parts p1..pn of type t is emitted as n directive     *)
(* lines whose contents are p1, .., p(n-1) and the terminator-completed    *)
(* pn.  (The parts are separate source lines, so an already written        *)
(* terminator is looked for at the end of the last part.)                  *)
ExpectedTextLines(parts, type) ==
    [i \in 1..Len(parts) |-> IF i < Len(parts) THEN parts[i] ELSE Terminate(parts[i], type)]

(* ---- lists (movement steps, mart items), run-length encoded ---- *)
(* An RLE list is a sequence of [name, n] with n >= 1 and no two adjacent  *)
(* entries of the same name.                                               *)
RECURSIVE RleAppend(_, _, _)
RleAppend(r, name, n) ==
    IF n = 0 THEN r
    ELSE IF r # <<>> /\ r[Len(r)].name = name
         THEN [r EXCEPT ![Len(r)] = [name |-> name, n |-> r[Len(r)].n + n]]
         ELSE Append(r, [name |-> name, n |-> n])

(* items: sequence of [name, mul] (mul = 1 when none written) *)
RECURSIVE RleOf(_, _)
RleOf(items, acc) ==
    IF items = <<>> THEN acc
    ELSE RleOf(Tail(items), RleAppend(acc, Head(items).name, Head(items).mul))

(* everything before the first occurrence of the terminator *)
RECURSIVE RleBefore(_, _, _)
RleBefore(r, term, acc) ==
    IF r = <<>> THEN acc
    ELSE IF Head(r).name = term THEN acc
    ELSE RleBefore(Tail(r), term, Append(acc, Head(r)))

(* Expected emitted list: the items before the first terminator, then      *)
(* exactly one terminator.                                                 *)
ExpectedList(items, term) ==
    RleAppend(RleBefore(RleOf(items, <<>>), term, <<>>), term, 1)

MulOK(m) == m >= 1 /\ m <= 9999
=============================================================================
