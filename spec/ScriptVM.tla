------------------------------ MODULE ScriptVM ------------------------------
(***************************************************************************)
(* Meaning of the target: the handful of script-engine instructions the    *)
(* compiler generates, over the parsed lines of one output file.           *)
(*                                                                         *)
(*   A.asm  sequence of lines   [k |-> "label", name, role]                *)
(*                              [k |-> "ins", op, a (operands), toks, tgt, *)
(*                                           gen]                           *)
(*                              [k |-> "data", dir, rest]                   *)
(*   A.lab  code label -> index of its first definition                    *)
(*                                                                         *)
(* State: pc (0 when finished), reg (result of the last comparison), sw    *)
(* (value latched by `switch`), how (the way it finished).                 *)
(* Everything that is not one of the control instructions below is an      *)
(* opaque command; running a command invalidates reg and sw, so a branch   *)
(* that depends on a comparison made before a command is "undef".          *)
(***************************************************************************)
EXTENDS Naturals, Sequences, FiniteSets, TLC

VFinish(st, how) == [st EXCEPT !.pc = 0, !.how = how]

VInit(pc) == [pc |-> pc, reg |-> "none", sw |-> "none", how |-> ""]

CondJumps == {"goto_if_eq", "goto_if_ne", "goto_if_lt", "goto_if_le", "goto_if_gt", "goto_if_ge"}
Reads     == {"goto_if_set", "goto_if_unset", "compare", "compare_var_to_value",
              "checktrainerflag", "switch"}

CondHolds(op, reg) ==
    CASE op = "goto_if_eq" -> reg = "eq"
      [] op = "goto_if_ne" -> reg # "eq"
      [] op = "goto_if_lt" -> reg = "lt"
      [] op = "goto_if_le" -> reg \in {"lt", "eq"}
      [] op = "goto_if_gt" -> reg = "gt"
      [] op = "goto_if_ge" -> reg \in {"gt", "eq"}

(* Jump to label L: code labels are followed; a missing label of generated *)
(* shape is "dangling"; anything else leaves the file.                     *)
JumpTo(A, st, ln) ==
    IF ln.tgt \in DOMAIN A.lab THEN [st EXCEPT !.pc = A.lab[ln.tgt]]
    ELSE IF ln.gen THEN VFinish(st, "dangling:" \o ln.tgt)
    ELSE VFinish(st, "leave:" \o ln.tgt)

(* Sequential successor: falling onto the entry of a script or onto data   *)
(* (or off the end of the file) is a run-off.                              *)
Fall(A, st) ==
    LET n == st.pc + 1 IN
    IF n > Len(A.asm) THEN VFinish(st, "runoff")
    ELSE LET ln == A.asm[n] IN
         IF ln.k = "data" THEN VFinish(st, "runoff")
         ELSE IF ln.k = "label" /\ ln.role \in {"entry", "data"} THEN VFinish(st, "runoff")
         ELSE [st EXCEPT !.pc = n]

(* Silent moves up to the next command, read or ending.                    *)
RECURSIVE VGo(_, _, _)
VGo(A, st, seen) ==
    IF st.pc = 0 THEN st
    ELSE IF st.pc \in seen THEN VFinish(st, "diverge")
    ELSE LET sn == seen \cup {st.pc}
             ln == A.asm[st.pc] IN
    CASE ln.k = "label" -> VGo(A, Fall(A, st), sn)
      [] ln.k = "data"  -> VFinish(st, "runoff")
      [] OTHER ->
         (CASE ln.op = "goto" /\ Len(ln.a) = 1 -> VGo(A, JumpTo(A, st, ln), sn)
            [] ln.op = "return" -> VFinish(st, "return")
            [] ln.op = "end"    -> VFinish(st, "end")
            [] ln.op \in CondJumps ->
                 (IF st.reg \notin {"lt", "eq", "gt"} THEN VFinish(st, "undef:" \o ln.op)
                  ELSE IF CondHolds(ln.op, st.reg) THEN VGo(A, JumpTo(A, st, ln), sn)
                  ELSE VGo(A, Fall(A, st), sn))
            [] ln.op = "goto_if" ->
                 (IF st.reg \notin {"T", "F"} \/ Len(ln.a) # 2 \/ ln.a[1] \notin {"0", "1"}
                  THEN VFinish(st, "undef:goto_if")
                  ELSE IF (ln.a[1] = "1") = (st.reg = "T") THEN VGo(A, JumpTo(A, st, ln), sn)
                  ELSE VGo(A, Fall(A, st), sn))
            [] ln.op = "case" ->
                 (IF st.sw = "none" \/ Len(ln.a) # 2 THEN VFinish(st, "undef:case")
                  ELSE IF st.sw = ln.a[1] THEN VGo(A, JumpTo(A, st, ln), sn)
                  ELSE VGo(A, Fall(A, st), sn))
            [] OTHER -> st)       \* a read or a command

VLine(A, st) == A.asm[st.pc]

VObs(A, st) ==
    IF st.pc = 0 THEN [k |-> "done", how |-> st.how]
    ELSE IF VLine(A, st).op \in Reads THEN [k |-> "read"]
    ELSE [k |-> "cmd", toks |-> VLine(A, st).toks]

VLoc(A, st) ==
    IF st.pc = 0 THEN ""
    ELSE LET ln == VLine(A, st) IN
         CASE ln.op \in {"goto_if_set", "goto_if_unset"} -> "flag:" \o ln.a[1]
           [] ln.op = "compare"              -> "cmp:" \o ln.a[1] \o ":" \o ln.a[2]
           [] ln.op = "compare_var_to_value" -> "cmpv:" \o ln.a[1] \o ":" \o ln.a[2]
           [] ln.op = "checktrainerflag"     -> "trainer:" \o ln.a[1]
           [] ln.op = "switch"               -> "sw:" \o ln.a[1]
           [] OTHER -> ""

(* One step from a command (a = "-") or from a read with answer a.         *)
VStep(A, st, a) ==
    LET ln == VLine(A, st) IN
    CASE ln.op = "goto_if_set" ->
            (IF a = "T" THEN VGo(A, JumpTo(A, st, ln), {}) ELSE VGo(A, Fall(A, st), {}))
      [] ln.op = "goto_if_unset" ->
            (IF a = "F" THEN VGo(A, JumpTo(A, st, ln), {}) ELSE VGo(A, Fall(A, st), {}))
      [] ln.op \in {"compare", "compare_var_to_value", "checktrainerflag"} ->
            VGo(A, Fall(A, [st EXCEPT !.reg = a]), {})
      [] ln.op = "switch" ->
            VGo(A, Fall(A, [st EXCEPT !.sw = a]), {})
      [] OTHER ->          \* a command: registers are no longer trustworthy
            VGo(A, Fall(A, [st EXCEPT !.reg = "none", !.sw = "none"]), {})

(* All case values compared against after a `switch v` anywhere in A.      *)
VSwitchValues(A, v) ==
    {A.asm[i].a[1] : i \in {i \in 1..Len(A.asm) :
          A.asm[i].k = "ins" /\ A.asm[i].op = "case" /\ Len(A.asm[i].a) = 2}}

=============================================================================
