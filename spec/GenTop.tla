-------------------------------- MODULE GenTop ------------------------------
(***************************************************************************)
(* Input family for C15/C04/C17: every file of 1..MaxTops top-level        *)
(* statements over the statement kinds and the three scope modifiers.      *)
(* The harness fills in names and bodies (scripts get labels with and      *)
(* without (global), inline text and moves(); mapscripts get plain, inline *)
(* and table entries).                                                     *)
(***************************************************************************)
EXTENDS Naturals, Sequences, FiniteSets, TLC, Json, SequencesExt
CONSTANT MaxTops

Top == [k : {"script", "text", "movement", "mart", "mapscripts"}, scope : {"", "global", "local"}]
       \cup {[k |-> "raw", scope |-> ""]}
Family == UNION {[1..n -> Top] : n \in 1..MaxTops}

ASSUME PrintT(<<"GenTop", Cardinality(Family)>>)
ASSUME ndJsonSerialize("tops.ndjson", SetToSeq(Family))

VARIABLE x
Init == x = 0
Next == x' = x
=============================================================================
