------------------------------ MODULE StmtModel -----------------------------
(***************************************************************************)
(* Which statement sequences the parser accepts as a script body           *)
(* (parser.parseBlockStatement / parseStatement / parseIfStatement /       *)
(* parseWhileStatement / parseDoWhileStatement / parseSwitchStatement /    *)
(* parseSwitchBlockStatement / parseBreakStatement /                       *)
(* parseContinueStatement), over macro tokens:                             *)
(*   c  a command          if  "if (cond)"     elif "elif (cond)"  else    *)
(*   wh "while (cond)"     lp  "while" alone   do   br "break"             *)
(*   co "continue"         sw  "switch (var)"  c1 c2 "case 1:" "case 2:"   *)
(*   df "default:"         {   }                                           *)
(* with the two scope stacks kept as depths (only empty / non-empty        *)
(* matters): 'break' needs a loop or switch around it, 'continue' a loop   *)
(* and the closing brace right after it; a switch has at most one default, *)
(* no repeated case value and at least one entry; 'do' needs               *)
(* "while (cond)" after its body.  A model of the implementation; StmtAll  *)
(* binds it to the real parser on every macro-token string up to a length. *)
(* toks ends with the "}" that closes the script.                          *)
(***************************************************************************)
EXTENDS Integers, Sequences, TLC

At(toks, i) == IF i >= 1 /\ i <= Len(toks) THEN toks[i] ELSE "EOF"
ERR == 0

RECURSIVE Block(_, _, _, _), Stmt(_, _, _, _), SwBlock(_, _, _, _), Cases(_, _, _, _, _, _), IfTail(_, _, _, _)

(* statements up to the closing brace: the index of that brace, or ERR *)
Block(toks, i, b, c) ==
    LET t == At(toks, i) IN
    IF t = "}" THEN i
    ELSE IF t = "EOF" THEN ERR
    ELSE LET j == Stmt(toks, i, b, c) IN IF j = ERR THEN ERR ELSE Block(toks, j + 1, b, c)

(* a case body: up to the next case / default / closing brace *)
SwBlock(toks, i, b, c) ==
    LET t == At(toks, i) IN
    IF t \in {"}", "c1", "c2", "df"} THEN i
    ELSE IF t = "EOF" THEN ERR
    ELSE LET j == Stmt(toks, i, b, c) IN IF j = ERR THEN ERR ELSE SwBlock(toks, j + 1, b, c)

(* "{ block }" starting at i: the index of its closing brace, or ERR *)
Braced(toks, i, b, c) == IF At(toks, i) # "{" THEN ERR ELSE Block(toks, i + 1, b, c)

(* after the closing brace k of an if / elif body: further elifs, an optional else *)
IfTail(toks, k, b, c) ==
    IF At(toks, k + 1) = "elif"
    THEN LET k2 == Braced(toks, k + 2, b, c) IN IF k2 = ERR THEN ERR ELSE IfTail(toks, k2, b, c)
    ELSE IF At(toks, k + 1) = "else" THEN Braced(toks, k + 2, b, c)
    ELSE k

(* the entries of a switch from j on: the index of the switch's closing brace, or ERR *)
Cases(toks, j, b, c, seen, n) ==       \* seen: case values and "df" met so far; n: number of entries
    LET t == At(toks, j) IN
    IF t = "}" THEN (IF n = 0 THEN ERR ELSE j)
    ELSE IF t \in {"c1", "c2", "df"}
         THEN IF t \in seen THEN ERR
              ELSE LET e == SwBlock(toks, j + 1, b, c) IN IF e = ERR THEN ERR ELSE Cases(toks, e, b, c, seen \cup {t}, n + 1)
    ELSE ERR

(* one statement starting at i: the index of its last token, or ERR *)
Stmt(toks, i, b, c) ==
    LET t == At(toks, i) IN
    CASE t = "c"  -> i
      [] t = "if" -> LET k == Braced(toks, i + 1, b, c) IN IF k = ERR THEN ERR ELSE IfTail(toks, k, b, c)
      [] t = "wh" -> Braced(toks, i + 1, b + 1, c + 1)
      [] t = "lp" -> Braced(toks, i + 1, b + 1, c + 1)        \* "while" alone must be followed by "{" (or by "(", which no macro token starts with)
      [] t = "do" -> LET k == Braced(toks, i + 1, b + 1, c + 1) IN
                     IF k = ERR THEN ERR ELSE IF At(toks, k + 1) = "wh" THEN k + 1 ELSE ERR
      [] t = "br" -> IF b > 0 THEN i ELSE ERR
      [] t = "co" -> IF c > 0 /\ At(toks, i + 1) = "}" THEN i ELSE ERR
      [] t = "sw" -> IF At(toks, i + 1) # "{" THEN ERR ELSE Cases(toks, i + 2, b + 1, c, {}, 0)
      [] OTHER    -> ERR

Accepts(toks) == Block(toks, 1, 0, 0) = Len(toks)

-----------------------------------------------------------------------------
(* The same descent, reporting WHY and WHERE it stops: [kind, pos] with kind one of      *)
(* "ok", "break", "continue", "dupcase", "twodefault" (the rules of C20) or "syntax".     *)
(* pos is the index of the offending token.  Used by StmtReject for verdicts.             *)
OK(p) == [kind |-> "ok", pos |-> p]
Bad(k, p) == [kind |-> k, pos |-> p]
IsOK(r) == r.kind = "ok"

RECURSIVE EBlock(_, _, _, _), EStmt(_, _, _, _), ESwBlock(_, _, _, _), ECases(_, _, _, _, _, _), EIfTail(_, _, _, _)

EBlock(toks, i, b, c) ==
    LET t == At(toks, i) IN
    IF t = "}" THEN OK(i)
    ELSE IF t = "EOF" THEN Bad("syntax", i)
    ELSE LET r == EStmt(toks, i, b, c) IN IF ~IsOK(r) THEN r ELSE EBlock(toks, r.pos + 1, b, c)

ESwBlock(toks, i, b, c) ==
    LET t == At(toks, i) IN
    IF t \in {"}", "c1", "c2", "df"} THEN OK(i)
    ELSE IF t = "EOF" THEN Bad("syntax", i)
    ELSE LET r == EStmt(toks, i, b, c) IN IF ~IsOK(r) THEN r ELSE ESwBlock(toks, r.pos + 1, b, c)

EBraced(toks, i, b, c) == IF At(toks, i) # "{" THEN Bad("syntax", i) ELSE EBlock(toks, i + 1, b, c)

EIfTail(toks, k, b, c) ==
    IF At(toks, k + 1) = "elif"
    THEN LET r == EBraced(toks, k + 2, b, c) IN IF ~IsOK(r) THEN r ELSE EIfTail(toks, r.pos, b, c)
    ELSE IF At(toks, k + 1) = "else" THEN EBraced(toks, k + 2, b, c)
    ELSE OK(k)

ECases(toks, j, b, c, seen, n) ==
    LET t == At(toks, j) IN
    IF t = "}" THEN (IF n = 0 THEN Bad("syntax", j) ELSE OK(j))
    ELSE IF t \in {"c1", "c2", "df"}
         THEN IF t \in seen THEN Bad(IF t = "df" THEN "twodefault" ELSE "dupcase", j)
              ELSE LET r == ESwBlock(toks, j + 1, b, c) IN IF ~IsOK(r) THEN r ELSE ECases(toks, r.pos, b, c, seen \cup {t}, n + 1)
    ELSE Bad("syntax", j)

EStmt(toks, i, b, c) ==
    LET t == At(toks, i) IN
    CASE t = "c"  -> OK(i)
      [] t = "if" -> LET r == EBraced(toks, i + 1, b, c) IN IF ~IsOK(r) THEN r ELSE EIfTail(toks, r.pos, b, c)
      [] t = "wh" -> EBraced(toks, i + 1, b + 1, c + 1)
      [] t = "lp" -> EBraced(toks, i + 1, b + 1, c + 1)
      [] t = "do" -> LET r == EBraced(toks, i + 1, b + 1, c + 1) IN
                     IF ~IsOK(r) THEN r ELSE IF At(toks, r.pos + 1) = "wh" THEN OK(r.pos + 1) ELSE Bad("syntax", r.pos + 1)
      [] t = "br" -> IF b > 0 THEN OK(i) ELSE Bad("break", i)
      [] t = "co" -> IF c > 0 /\ At(toks, i + 1) = "}" THEN OK(i)
                     \* last in a case body but not before the closing brace: the parser is stricter than the
                     \* manual here; not one of the violations C20 lists
                     ELSE IF c > 0 /\ At(toks, i + 1) \in {"c1", "c2", "df"} THEN Bad("continue-before-case", i)
                     ELSE Bad("continue", i)
      [] t = "sw" -> IF At(toks, i + 1) # "{" THEN Bad("syntax", i + 1) ELSE ECases(toks, i + 2, b + 1, c, {}, 0)
      [] OTHER    -> Bad("syntax", i)

FirstError(toks) == LET r == EBlock(toks, 1, 0, 0) IN
                    IF IsOK(r) THEN (IF r.pos = Len(toks) THEN OK(0) ELSE Bad("syntax", r.pos + 1)) ELSE r
=============================================================================
