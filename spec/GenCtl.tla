------------------------------- MODULE GenCtl -------------------------------
(***************************************************************************)
(* Input family for C01/C04/C05: every small script body built from the    *)
(* control constructs.  Statements are records in the JSON abstract syntax *)
(* of the harness; conditions are single leaves, commands, flags and       *)
(* labels are renamed apart by the harness (purely syntactic).             *)
(*                                                                         *)
(*   Inner     short straight-line bodies (with break/continue/end/label)  *)
(*   C1        compound statements whose bodies are Inner                  *)
(*   C2        compound statements whose body contains one C1 statement    *)
(*   one.ndjson   scripts  <<X>>, <<cmd, X>>, <<X, cmd>>   X in C1         *)
(*   nest.ndjson  the same for X in C2                                     *)
(*   pair.ndjson  scripts  <<X, Y>>   X, Y in C1                           *)
(***************************************************************************)
EXTENDS Naturals, Sequences, FiniteSets, TLC, Json, SequencesExt
CONSTANT Level      \* 1: one.ndjson only; 2: + nest.ndjson; 3: + pair.ndjson

Cmd     == [k |-> "cmd", toks |-> <<"c">>]
End     == [k |-> "cmd", toks |-> <<"end">>]
Ret     == [k |-> "cmd", toks |-> <<"return">>]
GotoL   == [k |-> "cmd", toks |-> <<"goto", "L">>]
GotoX   == [k |-> "cmd", toks |-> <<"goto", "Elsewhere">>]
Lab     == [k |-> "label", name |-> "L"]
Brk     == [k |-> "break"]
Cont    == [k |-> "continue"]
Leaf    == [k |-> "leaf", typ |-> "flag", opnd |-> "F", form |-> "bare"]

(* bodies allowed where a break (b) / continue (c) is legal *)
Inner(b, c) ==
    {<<>>, <<Cmd>>, <<End>>, <<Ret>>, <<Lab, Cmd>>, <<GotoL>>, <<Cmd, GotoX>>,
     <<End, Lab>>}                        \* a block whose last command is end, followed by a label only
    \cup (IF b THEN {<<Brk>>, <<Cmd, Brk>>, <<Brk, Lab, Cmd>>} ELSE {})
    \cup (IF c THEN {<<Cont>>, <<Cmd, Cont>>} ELSE {})

If(b1)          == [k |-> "if", arms |-> <<[cond |-> Leaf, body |-> b1]>>, haselse |-> FALSE, els |-> <<>>]
IfElse(b1, b2)  == [k |-> "if", arms |-> <<[cond |-> Leaf, body |-> b1]>>, haselse |-> TRUE, els |-> b2]
IfElif(b1, b2, b3, e) ==
    [k |-> "if", arms |-> <<[cond |-> Leaf, body |-> b1], [cond |-> Leaf, body |-> b2]>>, haselse |-> e, els |-> b3]
While(b1)       == [k |-> "while", hascond |-> TRUE, cond |-> Leaf, body |-> b1]
WhileInf(b1)    == [k |-> "while", hascond |-> FALSE, body |-> b1]
DoWhile(b1)     == [k |-> "dowhile", cond |-> Leaf, body |-> b1]
Switch2(b1, b2, d) ==      \* d: 0 no default, 1 default first (own body b1), 2 default last
    [k |-> "switch", v |-> "V", cases |->
        IF d = 0 THEN <<[isdef |-> FALSE, val |-> "1", body |-> b1], [isdef |-> FALSE, val |-> "2", body |-> b2]>>
        ELSE IF d = 1 THEN <<[isdef |-> TRUE, val |-> "", body |-> b1], [isdef |-> FALSE, val |-> "2", body |-> b2]>>
        ELSE <<[isdef |-> FALSE, val |-> "1", body |-> b1], [isdef |-> TRUE, val |-> "", body |-> b2]>>]

(* compound statements over a set B of bodies for plain blocks, BL for     *)
(* loop bodies and BS for switch case bodies                                *)
Compound(B, BL, BS) ==
    {If(x) : x \in B}
    \cup {IfElse(x, y) : x \in B, y \in B}
    \cup {IfElif(x, y, <<Cmd>>, e) : x \in B, y \in {<<>>, <<Cmd>>, <<End>>}, e \in BOOLEAN}
    \cup {While(x) : x \in BL} \cup {WhileInf(x) : x \in BL} \cup {DoWhile(x) : x \in BL}
    \cup {Switch2(x, y, d) : x \in BS, y \in BS, d \in 0..2}

(* continue must be the last statement before a closing brace, so it is    *)
(* not offered in switch case bodies                                        *)
C1(b, c) == Compound(Inner(b, c), Inner(TRUE, TRUE), Inner(TRUE, FALSE))

(* one level of nesting: the body is <<X>>, <<Cmd, X>> or <<X, Cmd>> with X in C1 *)
Around(S) == UNION {{<<x>>, <<Cmd, x>>, <<x, Cmd>>} : x \in S}
C2 == {If(x) : x \in Around(C1(FALSE, FALSE))}
      \cup {IfElse(x, <<Cmd>>) : x \in Around(C1(FALSE, FALSE))}
      \cup {While(x) : x \in Around(C1(TRUE, TRUE))}
      \cup {WhileInf(x) : x \in Around(C1(TRUE, TRUE))}
      \cup {DoWhile(x) : x \in Around(C1(TRUE, TRUE))}
      \cup {Switch2(x, <<Cmd>>, d) : x \in Around(C1(TRUE, FALSE)), d \in {0, 2}}

One  == Around(C1(FALSE, FALSE))
Nest == Around(C2)
Pair == {<<x, y>> : x \in C1(FALSE, FALSE), y \in C1(FALSE, FALSE)}

ASSUME PrintT(<<"GenCtl", Cardinality(One), IF Level >= 2 THEN Cardinality(Nest) ELSE 0>>)
ASSUME ndJsonSerialize("one.ndjson", SetToSeq(One))
ASSUME Level < 2 \/ ndJsonSerialize("nest.ndjson", SetToSeq(Nest))
ASSUME Level < 3 \/ ndJsonSerialize("pair.ndjson", SetToSeq(Pair))

VARIABLE x
Init == x = 0
Next == x' = x
=============================================================================
