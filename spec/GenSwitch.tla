----------------------------- MODULE GenSwitch ------------------------------
(***************************************************************************)
(* Input family for C03: every case list of length 1..MaxCases - default   *)
(* at any position or absent, every pattern of bodies - in every context.  *)
(* A body pattern is a name the harness expands:                           *)
(*   empty | cmd | cmdbreak | breakcmd | break | ifbreak                   *)
(* Case i (1-based, counting the default too) has the value "i".           *)
(***************************************************************************)
EXTENDS Naturals, Sequences, FiniteSets, TLC, Json, SequencesExt
CONSTANT MaxCases

Bodies   == {"empty", "cmd", "cmdbreak", "breakcmd", "break", "ifbreak"}
Contexts == {"alone", "first", "last", "inwhile", "indowhile", "inswitch", "inif", "thenswitch",
             "twice", "nestedsame"}          \* two switches of the same shape in one script

Lists(n) == {cs \in [1..n -> [isdef : BOOLEAN, body : Bodies]] :
                Cardinality({i \in 1..n : cs[i].isdef}) <= 1}

Family == {[ctx |-> c, cases |-> cs] : c \in Contexts, cs \in UNION {Lists(n) : n \in 1..MaxCases}}

ASSUME PrintT(<<"switch family", Cardinality(Family)>>)
ASSUME ndJsonSerialize("switches.ndjson", SetToSeq(Family))

VARIABLE x
Init == x = 0
Next == x' = x
=============================================================================
