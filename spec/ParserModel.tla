----------------------------- MODULE ParserModel -----------------------------
(***************************************************************************)
(* The recursive-descent parser of boolean expressions                     *)
(* (parser.parseBooleanExpression / parseRightSideExpression) as it is     *)
(* implemented: the cursor conventions (curToken / peekToken), the `single`*)
(* flag for the right operand of &&, the negation pushed down into the     *)
(* leaves (De Morgan), the right-nesting of || and the chaining of &&.      *)
(* Like Lowering, this module models the IMPLEMENTATION and is not used    *)
(* for verdicts.  ParserConform checks two things for every condition of   *)
(* the family GenExpr:                                                     *)
(*   design      the tree the model builds means the written expression    *)
(*               (same truth table as the generator's tree);               *)
(*   conformance the tree the REAL parser built is the model's tree.       *)
(*                                                                         *)
(* Tokens: "(" ")" "&&" "||" "!" and leaves "L1", "L2", ... (a leaf with a *)
(* directly preceding "!" is the negated form of the leaf).  toks[1] is    *)
(* the "(" that opens the condition; the expression ends at its ")".       *)
(***************************************************************************)
EXTENDS Integers, Sequences, TLC

IsLeaf(t) == t \notin {"(", ")", "&&", "||", "!"}
At(toks, i) == IF i >= 1 /\ i <= Len(toks) THEN toks[i] ELSE "EOF"

FlipOp(o) == IF o = "and" THEN "or" ELSE "and"
OpOf(t, negated) == LET o == IF t = "&&" THEN "and" ELSE "or" IN IF negated THEN FlipOp(o) ELSE o

(* Results: [t |-> tree, p |-> index of curToken afterwards] or [err |-> TRUE].          *)
(* Trees: [k |-> "and" | "or", l, r]  /  [k |-> "leaf", name, neg]                      *)
Err == [err |-> TRUE]
IsErr(r) == "err" \in DOMAIN r

RECURSIVE PBE(_, _, _, _), PRS(_, _, _, _, _)

(* parseBooleanExpression(single, negated): curToken is toks[p], the expression starts at p+1 *)
PBE(toks, p, single, negated) ==
    LET nested    == At(toks, p + 1) = "("
        negNested == At(toks, p + 1) = "!" /\ At(toks, p + 2) = "("
    IN
    IF nested \/ negNested
    THEN LET open  == IF nested THEN p + 1 ELSE p + 2           \* curToken = "("
             inner == PBE(toks, open, FALSE, IF nested THEN negated ELSE ~negated)
         IN IF IsErr(inner) \/ At(toks, inner.p) # ")" THEN Err
            ELSE IF ~single /\ At(toks, inner.p + 1) \in {"&&", "||"}
                 THEN PRS(toks, inner.p + 1, inner.t, single, negated)
                 ELSE [t |-> inner.t, p |-> inner.p + 1]
    ELSE (* a leaf, possibly written with a leading "!" *)
         LET bang == At(toks, p + 1) = "!"
             lp   == IF bang THEN p + 2 ELSE p + 1
         IN IF ~IsLeaf(At(toks, lp)) \/ At(toks, lp) = "EOF" THEN Err
            ELSE LET leaf == [k |-> "leaf", name |-> toks[lp], neg |-> (bang # negated)]
                 IN IF single THEN [t |-> leaf, p |-> lp + 1]
                    ELSE PRS(toks, lp + 1, leaf, single, negated)

(* parseRightSideExpression(left, single, negated): curToken is toks[p] *)
PRS(toks, p, left, single, negated) ==
    IF At(toks, p) = "&&"
    THEN LET right == PBE(toks, p, TRUE, negated) IN
         IF IsErr(right) THEN Err
         ELSE LET grouped == [k |-> OpOf("&&", negated), l |-> left, r |-> right.t] IN
              IF At(toks, right.p) = ")" THEN [t |-> grouped, p |-> right.p]
              ELSE IF At(toks, right.p) = "&&" THEN PRS(toks, right.p, grouped, single, negated)   \* extend the chain
              ELSE IF At(toks, right.p) = "||"
              THEN LET rest == PBE(toks, right.p, FALSE, negated) IN
                   IF IsErr(rest) THEN Err
                   ELSE [t |-> [k |-> OpOf("||", negated), l |-> grouped, r |-> rest.t], p |-> rest.p]
              ELSE [t |-> grouped, p |-> right.p]        \* not an operator: left to the caller
    ELSE IF At(toks, p) = "||"
    THEN LET right == PBE(toks, p, FALSE, negated) IN
         IF IsErr(right) THEN Err
         ELSE [t |-> [k |-> OpOf("||", negated), l |-> left, r |-> right.t], p |-> right.p]
    ELSE [t |-> left, p |-> p]

Parse(toks) == PBE(toks, 1, FALSE, FALSE)

(* ---- meaning of trees ---- *)
RECURSIVE Eval(_, _)
Eval(t, env) ==     \* env: leaf name -> BOOLEAN
    CASE t.k = "leaf" -> (env[t.name] # t.neg)
      [] t.k = "and"  -> Eval(t.l, env) /\ Eval(t.r, env)
      [] t.k = "or"   -> Eval(t.l, env) \/ Eval(t.r, env)
      [] t.k = "not"  -> ~Eval(t.e, env)

RECURSIVE Leaves(_)
Leaves(t) == CASE t.k = "leaf" -> {t.name}
               [] t.k = "not" -> Leaves(t.e)
               [] OTHER -> Leaves(t.l) \cup Leaves(t.r)

Equivalent(a, b) == \A env \in [Leaves(a) \cup Leaves(b) -> BOOLEAN] : Eval(a, env) = Eval(b, env)
=============================================================================
