-------------------------------- MODULE GenLex ------------------------------
(***************************************************************************)
(* Input family for C19: lexeme lists over one representative of each      *)
(* token class (indices into the harness's table) with a separator from    *)
(* Seps at every gap.  Pairs are exhaustive; triples are sampled by the    *)
(* harness.                                                                *)
(***************************************************************************)
EXTENDS Naturals, Sequences, FiniteSets, TLC, Json, SequencesExt
CONSTANTS NLex, NSep

Pairs == {[lex |-> <<a, b>>, sep |-> <<s0, s1, s2>>] :
             a \in 1..NLex, b \in 1..NLex, s0 \in {1, 4}, s1 \in 1..NSep, s2 \in {1, 2, 4, 6}}
ASSUME PrintT(<<"GenLex", Cardinality(Pairs)>>)
ASSUME ndJsonSerialize("lex.ndjson", SetToSeq(Pairs))

VARIABLE x
Init == x = 0
Next == x' = x
=============================================================================
