-------------------------------- MODULE LexAll -------------------------------
(***************************************************************************)
(* LexModel against the REAL lexer on every string of GenChars: the same   *)
(* token types, literals and character offsets, token for token.           *)
(* c.chars: the input as a sequence of characters; c.real: the tokens the  *)
(* real lexer returned (offsets computed from its line / character column).*)
(***************************************************************************)
EXTENDS Integers, Sequences, TLC, Json
MBL == {"\\u{e9}"}                   \* the harness's ASCII escape of the multi-byte letter of the alphabet
INSTANCE LexModel WITH MBLetters <- MBL
Cases == ndJsonDeserialize("lexall.ndjson")
VARIABLE ci
Init == ci \in 1..Len(Cases)
Next == UNCHANGED ci
Spec == Init /\ [][Next]_ci
Conform(c) == Tokens(c.chars) = c.real
Report == ~Conform(Cases[ci]) => PrintT(<<"DIVERGED", ci, Cases[ci].id, "conformance", Tokens(Cases[ci].chars)>>)
=============================================================================
