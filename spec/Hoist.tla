-------------------------------- MODULE Hoist -------------------------------
(***************************************************************************)
(* Hoisting of inline text and moves() arguments (C06).                    *)
(* State: table  (kind, type, content) -> label, shared by the whole file   *)
(*        count  (script, kind) -> next number                              *)
(*        defs   definitions allocated so far, in order                     *)
(* One action: an inline occurrence either reuses the label of identical   *)
(* content of the same type or allocates '<script>_Text_<n>' /             *)
(* '<script>_Movement_<n>'.                                                 *)
(* The invariants below are checked on the model itself for every          *)
(* occurrence sequence over small sets (Hoist.cfg); HoistTrace binds the   *)
(* model to the real compiler.                                             *)
(***************************************************************************)
EXTENDS Naturals, Sequences, FiniteSets, TLC

VARIABLES table, count, defs
hvars == <<table, count, defs>>

HInit == table = <<>> /\ count = <<>> /\ defs = <<>>

Key(kind, content, typ) == <<kind, typ, content>>
CKey(script, kind) == <<script, kind>>
Cnt(script, kind) == IF CKey(script, kind) \in DOMAIN count THEN count[CKey(script, kind)] ELSE 0

LabelFor(script, kind, n) ==
    script \o (IF kind = "text" THEN "_Text_" ELSE "_Movement_") \o ToString(n)

(* the label the occurrence gets *)
LabelOf(script, kind, content, typ) ==
    IF Key(kind, content, typ) \in DOMAIN table THEN table[Key(kind, content, typ)]
    ELSE LabelFor(script, kind, Cnt(script, kind))

Occur(script, kind, content, typ) ==
    IF Key(kind, content, typ) \in DOMAIN table THEN UNCHANGED hvars
    ELSE /\ table' = (Key(kind, content, typ) :> LabelFor(script, kind, Cnt(script, kind))) @@ table
         /\ count' = (CKey(script, kind) :> (Cnt(script, kind) + 1)) @@ count
         /\ defs' = Append(defs, [name |-> LabelFor(script, kind, Cnt(script, kind)),
                                  kind |-> kind, typ |-> typ, content |-> content])

(* ---- the model on its own ---- *)
CONSTANTS Scripts, Contents, Types
Next == \E s \in Scripts, k \in {"text", "moves"}, c \in Contents, t \in Types :
            /\ Len(defs) < 5
            /\ Occur(s, k, c, IF k = "moves" THEN "" ELSE t)
Spec == HInit /\ [][Next]_hvars

(* label <-> (kind, type, content) is one-to-one *)
Bijection == \A k1, k2 \in DOMAIN table : table[k1] = table[k2] => k1 = k2
(* every definition has its own name *)
DistinctDefs == \A i, j \in 1..Len(defs) : defs[i].name = defs[j].name => i = j
(* numbering per (script, kind) has no gaps and follows first appearance *)
GapFree == \A s \in Scripts, k \in {"text", "moves"} :
             LET mine == SelectSeq(defs, LAMBDA d : d.kind = k /\ d.name \in {LabelFor(s, k, n) : n \in 0..Len(defs)})
             IN \A i \in 1..Len(mine) : mine[i].name = LabelFor(s, k, i - 1)
=============================================================================
