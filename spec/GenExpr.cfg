INIT Init
NEXT Next
CONSTANT MaxLeaves = 4
