------------------------------ MODULE FormatStep ----------------------------
(***************************************************************************)
(* The step function of the greedy text-box filler behind format() (C07),  *)
(* shared by FormatText.tla (TLC: concrete small families, conformance of  *)
(* the real function) and FormatTextSym.tla (Apalache: symbolic widths and *)
(* parameters).  No recursion, no string operations, typed for Apalache.   *)
(*                                                                         *)
(* Tokens: [k |-> "w", w |-> pixel width] / [k |-> "b", c |-> code] with   *)
(* the codes written as the two characters backslash + letter.             *)
(* State: cur (positions of the words on the current line), w (its width), *)
(* ln (index of the current line within its paragraph), out (finished      *)
(* lines [ws, end, how]).                                                  *)
(***************************************************************************)
EXTENDS Integers, Sequences

cN == "\\n"
cL == "\\l"
cP == "\\p"
cBigN == "\\N"

(*
  @typeAlias: params = {max: Int, ov: Int, nl: Int, sp: Int};
  @typeAlias: tok = {k: Str, w: Int, c: Str};
  @typeAlias: line = {ws: Seq(Int), end: Str, how: Str};
  @typeAlias: fstate = {cur: Seq(Int), w: Int, ln: Int, out: Seq($line)};
*)
FormatStep_aliases == TRUE

\* @type: $fstate;
S0 == [cur |-> <<>>, w |-> 0, ln |-> 0, out |-> <<>>]

\* @type: ($params, Int) => Str;
AutoCode(P, ln) == IF ln >= P.nl - 1 THEN cL ELSE cN

(* one token *)
\* @type: ($params, Seq($tok), Int, $fstate) => $fstate;
StepTok(P, T, i, s) ==
    LET t == T[i] IN
    IF t.k = "b"
    THEN LET e == IF t.c = cBigN THEN AutoCode(P, s.ln) ELSE t.c IN
         [cur |-> <<>>, w |-> 0,
          ln  |-> IF t.c = cP THEN 0 ELSE s.ln + 1,
          out |-> Append(s.out, [ws |-> s.cur, end |-> e,
                                 how |-> IF t.c = cBigN THEN "auto" ELSE "explicit"])]
    ELSE LET add    == IF s.cur = <<>> THEN t.w ELSE s.w + P.sp + t.w
             prompt == i < Len(T) /\ (s.ln >= P.nl - 1 \/ (T[i + 1].k = "b" /\ T[i + 1].c = cP))
             need   == add + (IF prompt THEN P.ov ELSE 0)
         IN IF need > P.max /\ s.cur # <<>>
            THEN [cur |-> <<i>>, w |-> t.w, ln |-> s.ln + 1,                       \* Wrap
                  out |-> Append(s.out, [ws |-> s.cur, end |-> AutoCode(P, s.ln), how |-> "wrap"])]
            ELSE [s EXCEPT !.cur = Append(s.cur, i), !.w = add]                     \* Place

\* @type: ($fstate) => Seq($line);
Finish(s) == IF s.cur = <<>> THEN s.out ELSE Append(s.out, [ws |-> s.cur, end |-> "", how |-> "last"])
=============================================================================
