SPECIFICATION Spec
CONSTANTS
  Scripts = {"A", "B"}
  Contents = {"x", "y", "z"}
  Types = {"", "ascii"}
INVARIANT Bijection
INVARIANT DistinctDefs
INVARIANT GapFree
CHECK_DEADLOCK FALSE
