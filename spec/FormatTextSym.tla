---------------------------- MODULE FormatTextSym ---------------------------
(***************************************************************************)
(* The text-box filler of FormatStep.tla checked SYMBOLICALLY with         *)
(* Apalache: the parameters (maxLineLength, cursorOverlapWidth, numLines,  *)
(* blank width) and every word width are arbitrary non-negative integers,  *)
(* the token list is any list of at most K tokens.  FormatText.cfg lets    *)
(* TLC enumerate widths 1..3 x max 3..6 x lists <= 4; here the arithmetic  *)
(* is left to the SMT solver, so the invariants hold for ALL widths and    *)
(* parameter values (for lists of <= K tokens).                            *)
(*                                                                         *)
(*   apalache-mc check --init=Init --next=Next --inv=Fits --length=K+1     *)
(* The invariants are those of FormatText.tla with the recursive helpers   *)
(* written as folds.                                                       *)
(***************************************************************************)
EXTENDS Integers, Sequences, Apalache, FormatStep

VARIABLES
    \* @type: $params;
    P,
    \* @type: Seq($tok);
    T,
    \* @type: Int;
    i,
    \* @type: $fstate;
    s

\* @type: ($tok) => Bool;
TokOK(t) == \/ t.k = "w" /\ t.w >= 0 /\ t.c = ""
            \/ t.k = "b" /\ t.w = 0 /\ t.c \in {cN, cL, cP, cBigN}

ParamsOK == P.max >= 0 /\ P.ov >= 0 /\ P.nl >= 0 /\ P.sp >= 0
ToksOK == \A k \in DOMAIN T : TokOK(T[k])
\* (Gen needs a literal bound: one Init per list length)
Init6 ==
    /\ P = Gen(1) /\ ParamsOK
    /\ T = Gen(6) /\ ToksOK
    /\ i = 1 /\ s = S0
Init8 ==
    /\ P = Gen(1) /\ ParamsOK
    /\ T = Gen(8) /\ ToksOK
    /\ i = 1 /\ s = S0
Init12 ==
    /\ P = Gen(1) /\ ParamsOK
    /\ T = Gen(12) /\ ToksOK
    /\ i = 1 /\ s = S0
Next == \/ /\ i <= Len(T)
           /\ s' = StepTok(P, T, i, s) /\ i' = i + 1 /\ UNCHANGED <<P, T>>
        \/ i > Len(T) /\ UNCHANGED <<P, T, i, s>>          \* shorter lists: stutter at the end

\* finished lines so far
\* @type: Seq($line);
Lines == IF i > Len(T) THEN Finish(s) ELSE s.out

\* @type: (Int, Int) => Int;
AddWidth(acc, k) == acc + T[k].w
\* @type: ($line) => Int;
LineWidth(l) ==
    IF l.ws = <<>> THEN 0
    ELSE ApaFoldSeqLeft(AddWidth, 0, l.ws) + (Len(l.ws) - 1) * P.sp

\* index of line j within its paragraph: the number of lines since the last one ended by \p
\* @type: (Int, $line) => Int;
ParStep(acc, l) == IF l.end = cP THEN 0 ELSE acc + 1
\* @type: (Seq($line), Int) => Int;
ParIdx(ls, j) == ApaFoldSeqLeft(ParStep, 0, SubSeq(ls, 1, j - 1))

\* @type: (Seq($line), Int) => Bool;
CursorLine(ls, j) == ls[j].end = cP \/ (ls[j].end = cL /\ ParIdx(ls, j) >= P.nl - 1)

(* every finished multi-word line fits, with the overlap where the prompt is shown *)
Fits == \A j \in DOMAIN Lines :
           Len(Lines[j].ws) > 1 =>
              LineWidth(Lines[j]) + (IF CursorLine(Lines, j) THEN P.ov ELSE 0) <= P.max

(* a break chosen by the filler (wrap or \N) is \n for the first nl-1 lines of a paragraph, \l after *)
Discipline == \A j \in DOMAIN Lines :
                 Lines[j].how \in {"wrap", "auto"} =>
                    Lines[j].end = (IF ParIdx(Lines, j) >= P.nl - 1 THEN cL ELSE cN)

(* a word was moved to a new line only because it did not fit *)
MovedOnlyIfNeeded ==
    \A j \in DOMAIN Lines :
        (j < Len(Lines) /\ Lines[j].how = "wrap") =>
           LET k      == Lines[j + 1].ws[1]                 \* the word that was moved
               prompt == k < Len(T) /\ (ParIdx(Lines, j) >= P.nl - 1
                                         \/ (T[k + 1].k = "b" /\ T[k + 1].c = cP))
           IN LineWidth(Lines[j]) + P.sp + T[k].w + (IF prompt THEN P.ov ELSE 0) > P.max

(* bookkeeping: the width kept for the current line is the width of its words *)
WidthBook == s.w = LineWidth([ws |-> s.cur, end |-> "", how |-> ""])
=============================================================================
