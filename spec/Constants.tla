------------------------------ MODULE Constants -----------------------------
(***************************************************************************)
(* C13: using a constant is the same as writing its value.                 *)
(*                                                                         *)
(* defs: the const definitions of a program in source order, each a name   *)
(* and the tokens written as its value.  The value of a constant is its    *)
(* token list with every token that names an EARLIER constant replaced by  *)
(* that constant's (already expanded) value.                               *)
(*                                                                         *)
(* Each case pairs two REAL compilations: out1 of the program P with       *)
(* const definitions and uses, out2 of the program R in which every use    *)
(* (at a documented site, after the definition) is written out.  `uses`    *)
(* lists for every use the constant and the tokens the builder wrote in R; *)
(* TLC checks them against Expand, then out1 = out2.  A program that       *)
(* redefines a constant must be rejected.                                  *)
(***************************************************************************)
EXTENDS Naturals, Sequences, FiniteSets, TLC, Json

Cases == ndJsonDeserialize("constcases.ndjson")
VARIABLE ci

RECURSIVE Flat(_)
Flat(ss) == IF ss = <<>> THEN <<>> ELSE Head(ss) \o Flat(Tail(ss))

Subst(toks, m) == Flat([i \in 1..Len(toks) |-> IF toks[i] \in DOMAIN m THEN m[toks[i]] ELSE <<toks[i]>>])

RECURSIVE Expand(_, _)
Expand(defs, m) ==
    IF defs = <<>> THEN m
    ELSE Expand(Tail(defs), (Head(defs).name :> Subst(Head(defs).toks, m)) @@ m)

Redefines(defs) == \E i, j \in 1..Len(defs) : i < j /\ defs[i].name = defs[j].name

BuilderSound(c) ==
    Redefines(c.defs) \/
    \A i \in 1..Len(c.uses) :
        LET m == Expand(c.defs, <<>>) IN
        c.uses[i].name \in DOMAIN m /\ m[c.uses[i].name] = c.uses[i].toks

\* c.dupcase: the builder spelled one case value twice, once through a constant; the
\* written-out program then has a literal duplicate, and both must be rejected alike
Holds(c) == IF Redefines(c.defs) THEN c.err1
            ELSE IF c.dupcase THEN c.err1 /\ c.err2
            ELSE ~c.err1 /\ ~c.err2 /\ c.out1 = c.out2

Init == ci \in 1..Len(Cases)
Next == UNCHANGED ci
Spec == Init /\ [][Next]_ci
Report ==
    /\ (~BuilderSound(Cases[ci]) => PrintT(<<"BUILDER", ci, Cases[ci].id>>))
    /\ (~Holds(Cases[ci]) => PrintT(<<"DIVERGED", ci, Cases[ci].id>>))
=============================================================================
