------------------------------ MODULE AsmStatic -----------------------------
(***************************************************************************)
(* Static well-formedness of one output file (C04 a-c, C05 static part,    *)
(* C15 scopes).  Each case carries the parsed lines of a real output and   *)
(* what the SOURCE says must be there:                                     *)
(*   ulabels  label statements written inside scripts                      *)
(*   mustdef  names the source structure obliges the output to define      *)
(*            (script names, inline map scripts, tables, statements)       *)
(*   scopes   name -> "g" / "l": the scope each top-level or user label     *)
(*            must have (as written, or by the documented default)         *)
(* There is nothing to explore: the predicates are evaluated on every      *)
(* initial state (one per case) and every failing predicate is printed.    *)
(***************************************************************************)
EXTENDS Naturals, Sequences, FiniteSets, TLC, Json, SequencesExt

Cases == ndJsonDeserialize("static.ndjson")

VARIABLE ci

LabelIdx(A)   == {i \in 1..Len(A) : A[i].k = "label"}
Defs(A, name) == {i \in LabelIdx(A) : A[i].name = name}
InsIdx(A)     == {i \in 1..Len(A) : A[i].k = "ins"}

(* C04 a: every label is defined exactly once *)
UniqueLabels(A) == \A i, j \in LabelIdx(A) : A[i].name = A[j].name => i = j

(* C04 b: generated jump targets, hoisted text/movement arguments and the   *)
(* names the source obliges are all defined                                 *)
GenRefs(A)   == {A[i].tgt : i \in {i \in InsIdx(A) : A[i].tgt # "" /\ A[i].gen}}
HoistRefs(A) == UNION {ToSet(A[i].hrefs) : i \in InsIdx(A)}
RefsResolved(c) ==
    \A n \in GenRefs(c.asm) \cup HoistRefs(c.asm) \cup ToSet(c.mustdef) : Defs(c.asm, n) # {}

(* C04 c: every label the author wrote is there exactly once *)
UserLabelsOnce(c) == \A n \in ToSet(c.ulabels) : Cardinality(Defs(c.asm, n)) = 1

(* C05: no generated goto to the label on the very next line *)
NoGotoNext(A) ==
    \A i \in 1..(Len(A) - 1) :
        ~(A[i].k = "ins" /\ A[i].op = "goto" /\ A[i].gen
          /\ A[i + 1].k = "label" /\ A[i + 1].name = A[i].tgt)

(* C05: no generated sub-label that nothing refers to *)
NoOrphanSub(A) ==
    \A i \in LabelIdx(A) :
        A[i].role = "sub" => \E j \in InsIdx(A) : A[j].tgt = A[i].name

(* C15: scopes.  Every label listed in c.scopes has the stated scope, and  *)
(* every other label of the output (compiler-invented) is local.           *)
ScopesAsStated(c) ==
    \A i \in LabelIdx(c.asm) :
        LET n == c.asm[i].name IN
        IF n \in DOMAIN c.scopes THEN c.asm[i].g = (c.scopes[n] = "g")
        ELSE c.asm[i].raw \/ ~c.asm[i].g

(* the harness's label index is what it claims to be *)
LabIndexSound(c) ==
    \A n \in DOMAIN c.lab \ {"@"} :
        /\ c.lab[n] \in Defs(c.asm, n)
        /\ \A j \in Defs(c.asm, n) : c.lab[n] <= j

Failing(c) ==
    (IF UniqueLabels(c.asm) THEN {} ELSE {"UniqueLabels"})
    \cup (IF RefsResolved(c) THEN {} ELSE {"RefsResolved"})
    \cup (IF UserLabelsOnce(c) THEN {} ELSE {"UserLabelsOnce"})
    \cup (IF NoGotoNext(c.asm) THEN {} ELSE {"NoGotoNext"})
    \cup (IF NoOrphanSub(c.asm) THEN {} ELSE {"NoOrphanSub"})
    \cup (IF ScopesAsStated(c) THEN {} ELSE {"ScopesAsStated"})
    \cup (IF LabIndexSound(c) THEN {} ELSE {"LabIndexSound"})

Init == ci \in 1..Len(Cases)
Next == UNCHANGED ci
Spec == Init /\ [][Next]_ci

Report == LET f == Failing(Cases[ci]) IN
          f # {} => PrintT(<<"STATIC", ci, Cases[ci].id, f>>)
AllHold == Failing(Cases[ci]) = {}
=============================================================================
