-------------------------------- MODULE TopAll -------------------------------
(***************************************************************************)
(* TopModel against the REAL compiler on every token string of the         *)
(* harness's families (all short strings over the top-level alphabet; all  *)
(* sequences of up to three statement templates): the same accept /        *)
(* reject, and for accepted files the same labels with the same scope      *)
(* marker in the same order.                                               *)
(***************************************************************************)
EXTENDS TopModel, Json
Cases == ndJsonDeserialize("topall.ndjson")
VARIABLE ci
Init == ci \in 1..Len(Cases)
Next == UNCHANGED ci
Spec == Init /\ [][Next]_ci
Conform(c) == LET m == File(c.toks) IN m.err = c.err /\ (~m.err => m.labels = c.labels)
Report == ~Conform(Cases[ci]) => PrintT(<<"DIVERGED", ci, Cases[ci].id, "conformance", File(Cases[ci].toks)>>)
=============================================================================
