#!/usr/bin/env python3
"""Writes /verif/seeded/INDEX.md: one row per stored seeded change (from meta.json and patch.diff)."""
import json, os, re, glob
root = os.path.join(os.path.dirname(os.path.dirname(os.path.abspath(__file__))), "seeded")
rows = []
for d in sorted(os.listdir(root)):
    mp = os.path.join(root, d, "meta.json")
    if not os.path.exists(mp):
        continue
    m = json.load(open(mp))
    patch = open(os.path.join(root, d, "patch.diff"), errors="replace").read()
    files = sorted(set(re.findall(r"^\+\+\+ b/(\S+)", patch, re.M)))
    funcs = sorted(set(f for f in re.findall(r"^@@ .*@@ func (?:\([^)]*\) )?(\w+)", patch, re.M)))
    conf = m.get("confirmed", {})
    ok = all(conf.get(k) for k in ("build_ok", "existing_suite_passes", "demo_fails_with_mutation", "demo_passes_without"))
    det = m.get("detected_by", [])
    note = m.get("note", "")
    rows.append((d, m.get("property", ""), (int(re.search(r"-r(\d)-", d).group(1)) if re.search(r"-r(\d)-", d) else 1), ", ".join(files), ", ".join(funcs)[:60], "yes" if ok else "NO",
                 ", ".join(det) if det else "-", note))
with open(os.path.join(root, "INDEX.md"), "w") as f:
    f.write("# Seeded changes\n\nOne directory per change: `patch.diff` (and `patch.rebased.diff` where a later `fix:` commit touched the context), "
            "`demo_test.go.txt` (fails with the change, passes without), `README.agent.md` (the sub-agent's description), `meta.json`, the logs of the last run.\n"
            "`confirmed` = builds, the whole existing suite passes, the demonstration fails with it and passes without it. "
            "`detected by` = quick checks that exit 1 with a VIOLATION line when the change is applied to /repo's HEAD (tools/seedrun.sh).\n\n")
    f.write("| id | property | round | files | functions | confirmed | detected by | note |\n|---|---|---|---|---|---|---|---|\n")
    for r in rows:
        f.write("| " + " | ".join(str(x) for x in r) + " |\n")
    n = len(rows); nd = sum(1 for r in rows if r[6] != "-")
    f.write(f"\n{n} changes, {nd} detected by at least one quick check.\n")
print(len(rows), "rows")
