#!/bin/bash
# runs every seeded mutation against its property's check (plus the cross-checks listed here)
cd /verif
extra() { case "$1" in C11-2) echo C06;; C14-2) echo C06;; C08-2) echo C06;; C06-2) echo C12;; C17-2) echo "C05";; *) echo "";; esac; }
run() { P=$1; K=$2; tools/seedtest.sh $P $K $P $(extra $P-$K) > /tmp/seedall.$P-$K.log 2>&1; echo "$P-$K $(tail -1 /tmp/seedall.$P-$K.log)"; }
export -f run extra
# the two changes of a property share a worktree: one job per property
both() { run $1 1; run $1 2; }
export -f both
for P in ${*:-C01 C02 C03 C04 C05 C06 C07 C08 C09 C10 C11 C12 C13 C14 C15 C16 C17 C18 C19 C20}; do echo "$P"; done | xargs -P 3 -L 1 bash -c 'both $0'
