#!/bin/bash
# runs every seeded mutation against its property's check (plus the cross-checks listed here)
cd /verif
# run from a snapshot of the committed /verif so that editing the harness meanwhile does not disturb the runs
export VERIF_SNAP=/tmp/vsnap
rm -rf $VERIF_SNAP; git worktree prune; git worktree add -q --detach $VERIF_SNAP HEAD || exit 2
mkdir -p $VERIF_SNAP/.work; cp -r /verif/.work/fam $VERIF_SNAP/.work/ 2>/dev/null
export WT_ROOT=${WT_ROOT:-/tmp/wt}
export SEED_TAG=${SEED_TAG:-}
export KS=${KS:-1 2}
extra() { case "$1" in
  C11-2) echo C06;; C14-2) echo C06;; C08-2) echo C06;; C06-2) echo C12;; C17-2) echo C05;;
  C02-r2-2) echo C11;; C09-r2-1) echo C06;; C09-r2-2) echo C19;; C10-r2-2) echo C06;; C10-r2-3) echo "C01 C04";;
  C11-r2-1) echo C06;; C14-r2-3) echo C06;; C18-r2-1) echo C03;; C18-r2-2) echo C14;;
  *) echo "";; esac; }
run() { P=$1; K=$2; $VERIF_SNAP/tools/seedtest.sh $P $K $P $(extra $P-$SEED_TAG$K) > /tmp/seedall.$P-$SEED_TAG$K.log 2>&1; echo "$P-$SEED_TAG$K $(tail -2 /tmp/seedall.$P-$SEED_TAG$K.log | tr "\n" " ")"; }
export -f run extra
# the two changes of a property share a worktree: one job per property
both() { for K in $KS; do [ -d $WT_ROOT/$1/MUT/$K ] && run $1 $K; done; }
export -f both
for P in ${*:-C01 C02 C03 C04 C05 C06 C07 C08 C09 C10 C11 C12 C13 C14 C15 C16 C17 C18 C19 C20}; do echo "$P"; done | xargs -P 3 -L 1 bash -c 'both $0'
