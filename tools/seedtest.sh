#!/bin/bash
# tools/seedtest.sh <Cxx> <k> [check ids...]
#   confirms a seeded mutation in its scratch worktree /tmp/wt/<Cxx> (build ok, existing
#   tests pass, demo fails with / passes without), then applies it to /repo, runs the given
#   checks (default: <Cxx>) and reverts /repo.  Results go to /verif/seeded/<Cxx>-<k>/.
set -u
export GOFLAGS=-mod=mod GOPROXY=off GOSUMDB=off GOTOOLCHAIN=local
P=$1; K=$2; shift 2
CHECKS=${*:-$P}
WT=${WT_ROOT:-/tmp/wt}/${WT_NAME:-$P}
M=$WT/MUT/$K
OUT=/verif/seeded/$P-${SEED_TAG:-}$K
mkdir -p "$OUT"
cd "$WT" || exit 2
git checkout -q -- . ; rm -f zz_demo_test.go
TAG=$(grep -m1 -oP '^//go:build \K\S+' "$M/demo_test.go" 2>/dev/null || true)
TAGARG=""; [ -n "$TAG" ] && TAGARG="-tags $TAG"
PKG=$(grep -m1 -oP '^package \K\S+' "$M/demo_test.go")
rundemo() {
  if [ "$PKG" = main ] || [ "$PKG" = main_test ]; then
    cp "$M/demo_test.go" zz_demo_test.go; timeout 300 go test $TAGARG -vet=off -count=1 . >"$OUT/demo.$1.log" 2>&1; rc=$?; rm -f zz_demo_test.go
  else
    timeout 300 go test $TAGARG -vet=off -count=1 "./MUT/$K/" >"$OUT/demo.$1.log" 2>&1; rc=$?
  fi
  return $rc; }
rundemo clean; CLEAN=$?
git apply "$M/patch.diff" || { echo "patch does not apply in worktree"; exit 2; }
go build ./... ; BUILD=$?
go test -vet=off -count=1 ./emitter ./lexer ./parser >"$OUT/suite.log" 2>&1; SUITE=$?
rundemo mutated; MUT=$?
git checkout -q -- .
echo "confirm: build=$BUILD suite=$SUITE demo_with_mutation=$MUT(expect!=0) demo_clean=$CLEAN(expect 0)"
cp "$M/patch.diff" "$OUT/patch.diff"; cp "$M/demo_test.go" "$OUT/demo_test.go.txt"; cp "$M/README.md" "$OUT/README.agent.md" 2>/dev/null
# run our checks against the mutation applied on top of /repo's HEAD, in the scratch worktree
# (VERIF_REPO), leaving /repo and /verif/evidence untouched
BASE=$(git rev-parse HEAD)
HEAD_REPO=$(git -C /repo rev-parse HEAD)
git checkout -q --detach "$HEAD_REPO" || { echo "cannot move worktree to /repo HEAD"; exit 2; }
# (a change whose context was touched by a later fix: commit keeps a hand-rebased copy next to the original)
HEADPATCH="$OUT/patch.diff"; [ -f "$OUT/patch.rebased.diff" ] && HEADPATCH="$OUT/patch.rebased.diff"
if git apply "$HEADPATCH" 2>/dev/null || git apply --3way "$HEADPATCH" 2>/dev/null; then APPLY=0; git reset -q 2>/dev/null; else echo "patch does not apply to /repo HEAD"; APPLY=1; fi
RES=""
VOUT=/tmp/vout/$P-${SEED_TAG:-}$K; mkdir -p "$VOUT"
if [ $APPLY = 0 ]; then
  for c in $CHECKS; do
    (cd ${VERIF_SNAP:-/verif} && VERIF_REPO="$WT" VERIF_OUT="$VOUT" timeout 1800 ./check $c --tier quick >"$OUT/check.$c.log" 2>&1); rc=$?
    RES="$RES $c=$rc"
  done
fi
git checkout -q -- . ; git checkout -q --detach "$BASE"
rm -rf "$VOUT"
echo "checks:$RES"
python3 - "$P" "$K" "$BUILD" "$SUITE" "$MUT" "$CLEAN" "$RES" <<'PY'
import json,sys,os
p,k,build,suite,mut,clean,res=sys.argv[1:8]
out='/verif/seeded/%s-%s%s'%(p,os.environ.get('SEED_TAG',''),k)
meta={}
mp=os.path.join(out,'meta.json')
if os.path.exists(mp): meta=json.load(open(mp))
needs=""
rp=os.path.join(out,'README.agent.md')
if os.path.exists(rp):
    import re
    txt=open(rp,errors='replace').read()
    hits=[l.strip() for l in txt.split('\n') if re.search(r'trigger|manifest|needs|only when|only if', l, re.I)]
    needs=' '.join(hits)[:900]
meta.update({"property":p,"mutation":int(k),"round":(int(os.environ['SEED_TAG'][1]) if os.environ.get('SEED_TAG','')[1:2].isdigit() else 1),
 "needs_to_manifest":needs,
 "what_was_run":"tools/seedtest.sh: in a scratch worktree - git apply patch.diff; go build ./...; go test ./emitter ./lexer ./parser (existing suite); the demo with and without the patch; then ./check <ids> --tier quick with VERIF_REPO=<worktree at /repo HEAD + patch>",
 "confirmed":{"build_ok":build=="0","existing_suite_passes":suite=="0","demo_fails_with_mutation":mut!="0","demo_passes_without":clean=="0"},
 "checks_run":{x.split('=')[0]:int(x.split('=')[1]) for x in res.split()},
 "detected_by":[x.split('=')[0] for x in res.split() if x.split('=')[1]=="1"]})
json.dump(meta,open(mp,'w'),indent=1)
PY
