#!/bin/bash
# tools/seedrun.sh [names of /verif/seeded/<dir> ...]   (default: all)
# Re-runs the quick checks against every stored seeded change, applied to /repo's HEAD in a scratch
# worktree (removed afterwards), from a snapshot of the committed /verif.  For each change the checks
# run are: its property's, every check recorded as detecting it before, and those named in
# meta.json "also".  Writes checks_run / detected_by / head back into meta.json.
set -u
export GOFLAGS=-mod=mod GOPROXY=off GOSUMDB=off GOTOOLCHAIN=local
cd /verif
export SNAP=/tmp/vsnap
rm -rf $SNAP; git worktree prune; git worktree add -q --detach $SNAP HEAD || exit 2
mkdir -p $SNAP/.work; cp -r /verif/.work/fam $SNAP/.work/ 2>/dev/null
mkdir -p /tmp/seedrun
one() { D=$1; S=/verif/seeded/$D
  [ -f $S/patch.diff ] || { echo "$D no patch"; return; }
  WT=/tmp/seedrun/wt.$D; OUTD=/tmp/seedrun/out.$D
  git -C /repo worktree remove --force $WT 2>/dev/null; rm -rf $WT $OUTD
  git -C /repo worktree add -q --detach $WT HEAD || { echo "$D worktree failed"; return; }
  PATCH=$S/patch.diff; [ -f $S/patch.rebased.diff ] && PATCH=$S/patch.rebased.diff
  if ! (cd $WT && (git apply $PATCH 2>/dev/null || git apply --3way $PATCH 2>/dev/null)); then
    echo "$D patch does not apply at HEAD"; git -C /repo worktree remove --force $WT; return; fi
  CHECKS=$(python3 - $S <<'PY'
import json,sys,os
m=json.load(open(os.path.join(sys.argv[1],'meta.json')))
c=[m['property']]+[x for x in m.get('detected_by',[])]+m.get('also',[])
seen=[]
for x in c:
    if x not in seen: seen.append(x)
print(' '.join(seen))
PY
)
  RES=""
  for c in $CHECKS; do
    LOG=$S/check.$c.log; [ -n "${SEEDRUN_KEY:-}" ] && LOG=/tmp/seedrun/$D.$c.${SEEDRUN_KEY}.log
    (cd $SNAP && VERIF_REPO=$WT VERIF_OUT=$OUTD timeout 1800 ./check $c --tier quick > $LOG 2>&1); RES="$RES $c=$?"
  done
  git -C /repo worktree remove --force $WT; rm -rf $OUTD
  python3 - $S "$RES" "$(git -C /repo rev-parse --short HEAD)" <<'PY'
import json,sys,os
s,res,head=sys.argv[1:4]
mp=os.path.join(s,'meta.json'); m=json.load(open(mp))
runs={x.split('=')[0]:int(x.split('=')[1]) for x in res.split()}
key=os.environ.get('SEEDRUN_KEY','')
if key:
    # an additional run (e.g. another VERIF_SEED): recorded next to the main result
    m.setdefault('other_runs',{})[key]={'checks_run':runs,'detected_by':[k for k,v in runs.items() if v==1],'head':head}
else:
    m['checks_run']=runs; m['detected_by']=[k for k,v in runs.items() if v==1]; m['head']=head
json.dump(m,open(mp,'w'),indent=1)
PY
  echo "$D:$RES"; }
export -f one
if [ $# -gt 0 ]; then printf '%s\n' "$@"; else ls /verif/seeded; fi | xargs -P ${JOBS:-4} -I{} bash -c 'one {}'
git worktree remove --force $SNAP 2>/dev/null
