#!/usr/bin/env python3
"""Regenerates /verif/MANIFEST.json from the table below (kept next to the checks)."""
import json, sys, os

ROOT = os.path.dirname(os.path.dirname(os.path.abspath(__file__)))

TRUST = ("Trusted: TLC/JVM and the Json community module; the harness's pretty-printer and its purely "
         "lexical reader of the compiler's output. Programs are bounded (exhaustive TLA+ families) or sampled (seeded); ")

CHECKS = {
 "C01": dict(cat="model_checking", engine="refine",
   tech="TLA+ product exploration (PoryLang x ScriptVM) of real compiler output with TLC",
   text="TLC explores the synchronous product of the TLA+ reference semantics of the source (PoryLang) with the TLA+ semantics of the target (ScriptVM) over the assembly the real compiler emitted, from the script entry and every user label, under every game-state oracle (memo cleared by each command); loops are closed by finiteness of the product graph. optimize on and off. Programs: the repository's own test literals (emitter-only mode), the exhaustive GenCtl family, seeded programs, and seeded whole files whose commands and AutoVar conditions carry inline text / moves() (a source token @data:<k> must match a label whose definition in the real output is what Emission.tla says: Refine!TokMatch).",
   note=TRUST + "oracles are exhaustive per program.", ref="DESIGN.md sec. 3, 5/C01"),
 "C02": dict(cat="model_checking", engine="refine",
   tech="TLA+ product exploration over the TLC-enumerated expression family (GenExpr.tla)",
   text="Every boolean-expression tree with <= 3 leaves (exhaustive, enumerated by TLC from GenExpr.tla) and 4-leaf trees (sampled quick, exhaustive thorough) x leaf forms of the manual, as if/elif/while/do-while conditions, rendered minimally and with redundant parentheses; the product with the real output is explored under every truth assignment. Also every well-formed condition text of <= 11 (13) tokens over ( ) && || ! leaf, compiled exactly as written, against its usual reading (precedence parser in the harness).",
   note=TRUST + "the source side evaluates the generator's tree, never the parser's.", ref="DESIGN.md sec. 5/C02"),
 "C03": dict(cat="model_checking", engine="refine",
   tech="TLA+ product exploration over the TLC-enumerated switch family (GenSwitch.tla)",
   text="All case lists up to 3 (quick) / 4 (thorough) cases - default anywhere or absent, every pattern of empty/non-empty bodies and breaks - in 7 contexts, product explored for every value of the switched var (each written case value and 'other').",
   note=TRUST + "exhaustive within the stated bound.", ref="DESIGN.md sec. 5/C03"),
 "C04": dict(cat="model_checking", engine="static+vmonly",
   tech="TLA+ state predicates (AsmStatic.tla) and TLC exploration of ScriptVM alone (VMOnly.tla) over real outputs",
   text="For each real output TLC evaluates: labels unique, generated jump targets / hoisted arguments / obliged names defined, every user label present exactly once; and explores ScriptVM from every code label under all answers to show no run-off, no dangling generated label, no branch on an undefined comparison. Duplicate-name family: every pair of kinds (script, mapscripts, text, movement, mart, in-script label) given the same name must be rejected or else UniqueLabels fails (18 of the 21 pairs are open known findings keyed dup:<kind>/<kind>; any other pair is a violation).",
   note=TRUST + "user names never imitate generated names (generator invariant).", ref="DESIGN.md sec. 5/C04"),
 "C05": dict(cat="model_checking", engine="vv+static",
   tech="TLA+ product exploration ScriptVM(optimized) x ScriptVM(unoptimized) plus AsmStatic predicates",
   text="The optimized and unoptimized real outputs are explored in lockstep from every script entry and user label under every oracle; TLC also checks equality of hoisted data and visible labels, no generated goto to the next line, no unreferenced generated sub-label.",
   note=TRUST + "oracles exhaustive per program.", ref="DESIGN.md sec. 5/C05"),
 "C06": dict(cat="model_checking", engine="hoisttrace",
   tech="TLA+ state machine (Hoist.tla) model-checked on its own, plus trace validation (HoistTrace.tla) of recorded compilations",
   text="Hoist.tla (table, per-script counters, definitions) is model-checked for all occurrence sequences over small sets (bijection, distinct names, gap-free numbering); every compiled file is then replayed event by event - inline occurrences in source order with the label found at that argument position in the real output, user definitions, outcome, every text/movement definition of the output - and each event must be the model's step. Files: the exhaustive GenHoist family plus seeded files with inline data inside control constructs, AutoVar conditions, inline map scripts, format(), files written with poryswitch around what they denote, and user texts / movements named like the k-th generated label of a script, before and after it.",
   note=TRUST + "format() contents are obtained from the real FormatText (C07 judges that function).", ref="DESIGN.md sec. 5/C06"),
 "C08": dict(cat="model_checking", engine="mapscripts+refine",
   tech="TLA+ recogniser of the emitted header/tables (MapScripts.tla), Refine product for inline bodies, HoistTrace for their inline data",
   text="For every mapscripts statement of seeded files (any number/order of plain, inline and table entries, several statements per file, scripts in between) TLC checks header order and terminator, table rows and terminators, each inline script defined exactly once and local; every inline script is explored against the reference semantics of its body in the Refine product (inline text / moves() arguments resolved by Refine!TokMatch); inline text/moves() inside inline scripts is also trace-validated against Hoist.",
   note=TRUST + "map script types within one statement are distinct.", ref="DESIGN.md sec. 5/C08"),
 "C09": dict(cat="exploration", engine="textemit",
   tech="TLA+ emission rules (Emission.tla/TextEmit.tla) evaluated by TLC on the directive lines the real compiler emitted",
   text="Every content of length <= 3 over an alphabet hitting the terminator rules x 4 string types (enumerated by TLC) in rotating origins (inline, text statement, poryswitch matched/default, format()), plus multi-part literals: directive name, one line per source part in order, concatenation, exactly one terminator. The alphabet includes a line break inside the quotes (TextEmit!Denoted: the break and the blanks after it are one space) and comment openers inside quotes. The same kind of texts (with %, backslashes) go through the real binary on stdout and with -o and must equal the library's answer.",
   note=TRUST + "format() lines are taken from the real FormatText (C07 judges that function).", ref="DESIGN.md sec. 5/C09"),
 "C10": dict(cat="exploration", engine="commands",
   tech="TLA+ predicate (Commands.tla) comparing written statements with emitted lines, over the TLC-enumerated argument family",
   text="Every argument of GenArgs.tla is used at least once in straight-line scripts mixed with labels and label-like commands; TLC checks that the emitted lines are exactly the written statements, token for token, in order, once each, followed by return. Commands with inline text / moves() arguments in every construct (if/elif/else, loops, switch cases and default, inline map scripts, AutoVar conditions) are explored by the Refine product with the data resolved.",
   note=TRUST + "arguments are non-empty (the property's quantifier).", ref="DESIGN.md sec. 5/C10"),
 "C12": dict(cat="translation_validation", engine="poryswitch",
   tech="pairing of two real compilations (program with poryswitch vs its resolved form) judged by Poryswitch.tla",
   text="Poryswitch-free files R are decorated into P with poryswitch nodes in all four positions (statements, text, movement/moves(), mart), colon and brace forms, nested, selected by match or by '_', with distractor cases containing inline data; TLC checks every generated node against the selection rule and that compile(P, s) and compile(R) are line-identical; unresolvable nodes must make compilation fail.",
   note=TRUST + "P resolves to R by construction, validated per node by TLC against Selected.", ref="DESIGN.md sec. 5/C12"),
 "C13": dict(cat="translation_validation", engine="constants",
   tech="pairing of two real compilations (with constants vs written out) judged by Constants.tla",
   text="Files with 1-4 constants (single/multi-token, defined from earlier constants, named like steps/labels/commands) used at every documented site and present at every non-site; TLC validates the written-out values against Expand and checks line-identical outputs; redefinitions must be rejected; a case value spelled twice, once through a constant, must be rejected like the written-out duplicate.",
   note=TRUST + "at sites whose own syntax ends at the first ')' only parenthesis-free values are written out.", ref="DESIGN.md sec. 5/C13"),
 "C14": dict(cat="exploration", engine="listemit",
   tech="TLA+ list rules (Emission.tla/ListEmit.tla, run-length encoded) evaluated by TLC on emitted lists",
   text="Every list of <= 3 (4) entries over two names and the terminator with multipliers, plus boundary multipliers, as movement statement, moves() and mart, partly routed through poryswitch: expansion, order, single terminator, nothing after the first terminator, .align 2 / .2byte, rejection of multipliers outside 1..9999; every moves() list is preceded by a sibling list that differs in one multiplier only.",
   note=TRUST + "exhaustive within the bound.", ref="DESIGN.md sec. 5/C14"),
 "C15": dict(cat="exploration", engine="static",
   tech="TLA+ predicate AsmStatic!ScopesAsStated over every label definition of real outputs for the TLC-enumerated GenTop family",
   text="Every file of <= 3 top-level statements over the statement kinds x {none, global, local}: each top-level and user label (plain, (global), (local)) has the stated/default scope and every other (compiler-invented) label is local.",
   note=TRUST + "labels written inside raw blocks are the author's text and exempt.", ref="DESIGN.md sec. 5/C15"),
 "C07": dict(cat="model_checking", engine="formattext",
   tech="TLA+ state machine of the greedy text-box filler (FormatText.tla) model-checked by TLC, and conformance of the real FormatText / format() against FormatText!Run",
   text="FormatText.tla (Place / Wrap / Break / Finish) is model-checked for every token list of <= 4 tokens over word widths 1..3 and the four break codes x max 3..6 x overlap 0..2 x numLines 1..3: words kept in order, every multi-word line fits (with the overlap where the prompt is shown), break discipline, a word is moved only if it does not fit. The REAL FormatText is then run on renderings of the same family (irregular spacing, glued codes, control codes in braces incl. one with a blank, a multi-byte letter, synthetic font tables) and its lines must be exactly the model's; format(...) through the real parser with positional, named, option and font-config parameters is compared with the model under the documented precedence. The real function is also run on every character string of length <= 5 (6) over {a, blank, backslash, n, p, N, {, }} and compared with FormatLex!Formatted (the tokeniser of getNextWord in TLA+ followed by the filler); differences on texts whose reading the property fixes are violations. Thorough: the invariants with symbolic widths (Apalache, FormatTextSym.tla).",
   note=TRUST + "'prompt may follow' = another token follows and the line is the last of the box or the next token is \\p.", ref="DESIGN.md sec. 5/C07"),
 "C16": dict(cat="exploration", engine="linemarkers",
   tech="TLA+ predicates (LineMarkers.tla) on three real compilations per file, markers traced to constructs through identity tokens",
   text="Seeded files with every construct kind, identity tokens renamed apart, laid out pretty / on one line / with random blanks, newlines, CRLF and comments at every gap: output with markers minus marker lines = output without; no markers without a path; every marker names the path and a line inside the input and inside the span of the construct that produced the following output line (the k-th line of a raw block: exactly k lines below its opening backtick). The real binary with -i, on stdin and with leading blank lines must answer like the library.",
   note=TRUST + "a text statement's span starts at its keyword; an AutoVar operand's construct is the command call.", ref="DESIGN.md sec. 5/C16"),
 "C17": dict(cat="exploration", engine="session",
   tech="TLA+ trace spec (Session.tla: the process history is functional) over schedules enumerated by TLC, with fresh-process reference results; SameOut.tla for independence",
   text="Every schedule of <= 3 (4) compilations over pools of 4 inputs (hand-made near-duplicates and seeded files) is executed in one process, plus 16-way concurrent compilations; the history, prefixed by the result each input gives in a fresh process, must be functional. Pools include a font config without a default font and several input paths with markers on. Independence: a file's output equals the join of its statements compiled alone, inserting an unrelated statement only inserts its block, and format() texts in two fonts that give a control code different widths do not influence each other.",
   note=TRUST + "digests are SHA-1 of output or error text.", ref="DESIGN.md sec. 5/C17"),
 "C18": dict(cat="exploration", engine="robust",
   tech="TLA+ outcome rules (Robust.tla) evaluated by TLC on the outcomes of the real compiler over the TLC-enumerated single-edit neighbourhood (GenMut.tla)",
   text="Every truncation, deletion, duplication, adjacent swap and (sampled in the quick tier) substitution / insertion of each vocabulary token incl. hostile runes, applied to token windows of seeded files and to every condition shape of <= 3 leaves (complete neighbourhood in the thorough tier), under 4 option sets, normal and lint mode, with wall-clock limit and heap watch: outcome is output or an error located inside the input, lint accepts what normal accepts and never blames switches or fonts.",
   note=TRUST + "crash-freedom is explored, not decided; inputs are valid UTF-8.", ref="DESIGN.md sec. 5/C18"),
 "C19": dict(cat="model_checking", engine="lextrace",
   tech="TLA+ position model (LexPos.tla) with trace validation (LexTrace.tla) of the real lexer's token stream; SameOut.tla for layout independence of compiled output",
   text="Every pair of token-class representatives x separators at the three gaps (TLC-enumerated, GenLex.tla), every representative as the last thing in the input, and seeded longer lists (representatives include identifiers starting with multi-byte letters, multi-line string literals, comment openers inside strings): each token the real lexer returns must have the predicted type, literal, line, byte and character start, and end for single-line tokens; EOF at the final position and nothing else. Seeded files are compiled in three layouts and must give identical output.",
   note=TRUST + "a separator that would glue two lexemes (or merge two string literals) is not a layout.", ref="DESIGN.md sec. 5/C19"),
 "C20": dict(cat="exploration", engine="reject",
   tech="TLA+ static rules (Reject.tla over the PoryLang node tables) evaluated by TLC on the outcome of the real compiler",
   text="break and continue inserted at every position of every block of the GenCtl family and seeded programs (legal and illegal): rejected iff Reject.tla says illegal, on the line of the first offending keyword; duplicate cases, two defaults, redefined constants, text/movement/label clashes with generated names, each with non-violating twins, at nesting depths 0-3 with shifted line numbers, also in large switches and scripts; StmtReject.tla: every small program (all macro-token strings up to length 4 (5), structured ones up to 6 (7)) with exactly one listed violation must be rejected on the line of the offending token; error lines also through the real binary for sources with leading blank / CRLF / comment lines.",
   note=TRUST + "continue at the end of a non-final case body is exempt (parser documented stricter).", ref="DESIGN.md sec. 5/C20"),
 "C11": dict(cat="model_checking", engine="refine",
   tech="TLA+ product exploration with AutoVar leaves as command+read",
   text="Every expression shape with <= 3 leaves x every placement of 1-2 AutoVar leaves (name- and position-configured), as if/elif/while/do-while conditions and switch operands; the product shows each AutoVar command runs exactly once per evaluation in short-circuit order and the configured var is compared. AutoVar commands taking inline text, alone and as first / middle / last operand of && and || chains, are explored with the data resolved (Refine!TokMatch). The real binary with -cc <json> is shown to produce the same text.",
   note=TRUST + "the compared var is computed by the generator from the config, independently of the parser.", ref="DESIGN.md sec. 5/C11"),
}

def main():
    checks = []
    for pid in sorted(CHECKS):
        c = CHECKS[pid]
        checks.append({
            "property_id": pid,
            "quick_cmd": f"./check {pid} --tier quick",
            "thorough_cmd": f"./check {pid} --tier thorough",
            "evidence_file": f"/verif/evidence/{pid}.json",
            "replay_cmd_template": f"./check {pid} --replay {{path}}",
            "engine": c["engine"],
            "level_claimed": {"category": c["cat"], "text": c["text"], "design_ref": c["ref"]},
            "level_note": c["note"],
            "technique": c["tech"],
        })
    na = []
    allp = [json.loads(l)["id"] for l in open(os.path.join(ROOT, "properties.jsonl"))]
    NA_REASON = json.load(open(os.path.join(ROOT, "tools", "not_applicable.json")))
    for pid in allp:
        if pid not in CHECKS:
            na.append({"property_id": pid, "reason": NA_REASON.get(pid, "check not built yet (work in progress); no claim is made")})
    m = {
        "version": 1,
        "setup_cmd": "cd /verif && mkdir -p bin .work evidence replays && export GOFLAGS=-mod=mod GOPROXY=off GOSUMDB=off GOTOOLCHAIN=local CGO_ENABLED=0 && (cd harness && go build -tags verif -o ../bin/porycheck .) && (cd /repo && go build -tags verif -o /verif/bin/poryscript .)",
        "hooks": {
            "guard": "verif",
            "enable": "go build -tags verif (done by ./check on every run); no hook is currently needed: the library API exposes tokens, AST, error values and output",
            "baseline_off_cmd": "cd /repo && go test -vet=off -count=1 ./...",
            "source_commits": [],
            "add_only": True,
        },
        "engines": [
            {"name": "refine", "path": "spec/Refine.tla", "serves_properties": ["C01", "C02", "C03", "C08", "C11"], "kind_free_text": "PoryLang x ScriptVM product explored by TLC over real outputs"},
            {"name": "vv", "path": "spec/RefineVV.tla", "serves_properties": ["C05"], "kind_free_text": "ScriptVM x ScriptVM product"},
            {"name": "static", "path": "spec/AsmStatic.tla", "serves_properties": ["C04", "C05"], "kind_free_text": "state predicates on parsed outputs"},
            {"name": "vmonly", "path": "spec/VMOnly.tla", "serves_properties": ["C04"], "kind_free_text": "ScriptVM reachability"},
            {"name": "hoisttrace", "path": "spec/HoistTrace.tla", "serves_properties": ["C06", "C08"], "kind_free_text": "deterministic trace replay against Hoist.tla"},
            {"name": "pairs", "path": "spec/Poryswitch.tla, spec/Constants.tla", "serves_properties": ["C12", "C13"], "kind_free_text": "two real compilations paired by construction, judged by TLC"},
            {"name": "formattext", "path": "spec/FormatText.tla", "serves_properties": ["C07"], "kind_free_text": "model-checked state machine + conformance of the real function"},
            {"name": "traces", "path": "spec/LexTrace.tla, spec/Session.tla", "serves_properties": ["C17", "C19"], "kind_free_text": "deterministic trace replay"},
            {"name": "outcomes", "path": "spec/Robust.tla, spec/Reject.tla, spec/LineMarkers.tla", "serves_properties": ["C16", "C18", "C20"], "kind_free_text": "rules evaluated on recorded outcomes"},
            {"name": "emission", "path": "spec/Emission.tla", "serves_properties": ["C09", "C14", "C08", "C10"], "kind_free_text": "emission rules evaluated on recorded outputs"},
            {"name": "cli", "path": "spec/SameOut.tla, harness/cli.go", "serves_properties": ["C09", "C12", "C16", "C20", "C11"], "kind_free_text": "the real binary must answer like the library (files, stdin, stdout, options)"},
            {"name": "implementation-models", "path": "spec/Lowering.tla, spec/LoweringConform.tla, spec/LoweringRefine.tla, spec/ParserModel.tla, spec/ParserConform.tla, spec/ParserAll.tla, spec/LexModel.tla, spec/LexAll.tla, spec/CmdModel.tla, spec/CmdAll.tla, spec/StmtModel.tla, spec/StmtAll.tla, spec/TopModel.tla, spec/TopAll.tla, spec/ListModel.tla, spec/ListAll.tla, spec/Layout.tla, spec/HoistInd.tla, spec/FormatTextSym.tla", "serves_properties": [], "kind_free_text": "models of the emitter's and the condition parser's algorithms, bound line-for-line / tree-for-tree to the real code (./check lowering | parsermodel | lexmodel | cmdmodel | stmtmodel | topmodel | listmodel | layout | selftest), and Apalache runs on the hoisting and format() models (./check hoistind | formatsym); drift / model-level reports, never verdicts"},
        ],
        "checks": checks,
        "not_applicable": na,
        "notes": "Every verdict predicate is a TLA+ definition evaluated by TLC on artefacts produced by the real compiler in that run. exit 2 = machinery could not decide.",
    }
    json.dump(m, open(os.path.join(ROOT, "MANIFEST.json"), "w"), indent=1)
    print("wrote MANIFEST.json with", len(checks), "checks,", len(na), "not applicable")

main()
