#!/bin/bash
# rounds 3 and 4 (WT_ROOT=/tmp/wt4 RTAG=r4 tools/seedr3.sh A1 ...): mutations in $WT_ROOT/<R>/MUT/<k>; the property is named by the first
# line of the agent's README ("PROPERTY: Cxx"), secondary ones ("also Cyy") are run as cross-checks.
cd /verif
export VERIF_SNAP=/tmp/vsnap
rm -rf $VERIF_SNAP; git worktree prune; git worktree add -q --detach $VERIF_SNAP HEAD || exit 2
mkdir -p $VERIF_SNAP/.work; cp -r /verif/.work/fam $VERIF_SNAP/.work/ 2>/dev/null
export WT_ROOT=${WT_ROOT:-/tmp/wt3}
export RTAG=${RTAG:-r3}
region() { R=$1
  for K in 1 2 3 4 5; do
    M=$WT_ROOT/$R/MUT/$K; [ -f $M/README.md ] || continue
    P=$(grep -m1 -oP 'PROPERTY:?\s*\KC[0-9]+' $M/README.md)
    ALSO=$(head -5 $M/README.md | grep -oP 'C[0-9]{2}' | sort -u | grep -v "^$P$" | tr '\n' ' ')
    WT_NAME=$R SEED_TAG="$RTAG-$R." $VERIF_SNAP/tools/seedtest.sh $P $K $P $ALSO $EXTRA > /tmp/seedr3.$R.$K.log 2>&1
    echo "$R.$K $P [$ALSO] $(tail -2 /tmp/seedr3.$R.$K.log | tr '\n' ' ')"
  done; }
export -f region
for R in ${*:-R1 R2 R3 R4 R5 R6 R7 R8 R9}; do echo $R; done | xargs -P 3 -L 1 bash -c 'region $0'
