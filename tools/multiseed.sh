#!/bin/bash
# tools/multiseed.sh "<ids>" "<seeds>" : runs the quick tier of each check with each seed, evidence to a scratch dir
cd /verif
OUTD=/tmp/vout-multiseed; mkdir -p $OUTD
for id in $1; do for s in $2; do
  r=$(VERIF_SEED=$s VERIF_OUT=$OUTD ./check $id --tier quick 2>&1 | tail -1)
  echo "$id seed=$s: $r"
done; done
