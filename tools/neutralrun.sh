#!/bin/bash
# tools/neutralrun.sh [names of /verif/neutral/<dir> ...]   (default: all)
# Applies every stored property-PRESERVING change to /repo's HEAD in a scratch worktree and runs ALL quick
# checks against it: every check must exit 0 (no alarm where the properties hold).  Results go to meta.json.
set -u
export GOFLAGS=-mod=mod GOPROXY=off GOSUMDB=off GOTOOLCHAIN=local
cd /verif
export SNAP=/tmp/vsnap
rm -rf $SNAP; git worktree prune; git worktree add -q --detach $SNAP HEAD || exit 2
mkdir -p $SNAP/.work; cp -r /verif/.work/fam $SNAP/.work/ 2>/dev/null
mkdir -p /tmp/neutralrun
one() { D=$1; S=/verif/neutral/$D
  WT=/tmp/neutralrun/wt.$D; OUTD=/tmp/neutralrun/out.$D
  git -C /repo worktree remove --force $WT 2>/dev/null; rm -rf $WT $OUTD
  git -C /repo worktree add -q --detach $WT HEAD || { echo "$D worktree failed"; return; }
  if ! (cd $WT && (git apply $S/patch.diff 2>/dev/null || git apply --3way $S/patch.diff 2>/dev/null)); then
    echo "$D patch does not apply at HEAD"; git -C /repo worktree remove --force $WT; return; fi
  (cd $WT && go build ./... && go test -vet=off -count=1 ./emitter ./lexer ./parser > $S/suite.log 2>&1); SUITE=$?
  RES=""
  for c in ${NEUTRAL_CHECKS:-C01 C02 C03 C04 C05 C06 C07 C08 C09 C10 C11 C12 C13 C14 C15 C16 C17 C18 C19 C20}; do
    (cd $SNAP && VERIF_REPO=$WT VERIF_OUT=$OUTD timeout 1800 ./check $c --tier quick > /tmp/neutralrun/$D.$c.log 2>&1); rc=$?
    RES="$RES $c=$rc"
    [ $rc != 0 ] && cp /tmp/neutralrun/$D.$c.log $S/alarm.$c.log
  done
  git -C /repo worktree remove --force $WT; rm -rf $OUTD
  python3 - $S "$RES" "$SUITE" "$(git -C /repo rev-parse --short HEAD)" <<'PY'
import json,sys,os
s,res,suite,head=sys.argv[1:5]
runs={x.split('=')[0]:int(x.split('=')[1]) for x in res.split()}
m={"kind":"neutral","suite_passes_with_change":suite=="0",("checks_run" if len(runs)==20 else "checks_rerun"):runs,"alarms":[k for k,v in runs.items() if v!=0],"head":head}
mp=os.path.join(s,'meta.json')
if os.path.exists(mp):
    old=json.load(open(mp)); old.update(m); m=old
json.dump(m,open(mp,'w'),indent=1)
PY
  echo "$D: suite=$SUITE alarms:$(echo $RES | tr ' ' '\n' | grep -v '=0' | tr '\n' ' ')"; }
export -f one
if [ $# -gt 0 ]; then printf '%s\n' "$@"; else ls /verif/neutral; fi | xargs -P ${JOBS:-4} -I{} bash -c 'one {}'
git worktree remove --force $SNAP 2>/dev/null
