package main

import (
	"encoding/json"
	"fmt"
	"strings"
)

func init() {
	register("C05", "model_checking", checkC05)
	register("C04", "model_checking", checkC04)
}

// scriptCorpus builds the scripts-only programs shared by C04 and C05: random
// deep programs, a slice of the switch family and of the expression family.
func scriptCorpus(c *Ctx, nRandom int, swEvery, exEvery int) (progs []*Prog, srcs []string, ok bool) {
	r := NewRand(c.Seed*4099 + 5)
	cfg := GenCfg{MaxDepth: 3, MaxStmts: 3, MaxLeaves: 3, Auto: true, Switches: true, Gotos: true, NScripts: 3}
	for i := 0; i < nRandom; i++ {
		p := GenProg(r, cfg, fmt.Sprintf("%d_", i))
		progs = append(progs, p)
		srcs = append(srcs, RenderProg(p, Style{R: r, Parens: r.Chance(1, 3), Layout: r.Intn(3), EmptyParen: true}))
	}
	// the exhaustive small-program family (GenCtl.tla): all of one.ndjson, a slice of nest.ndjson
	fam, ok := cachedGenModule(c, "GenCtl", map[string]int{"Level": 2}, "one.ndjson", "nest.ndjson")
	if !ok {
		return nil, nil, false
	}
	nestEvery := 24
	if !c.Quick() {
		nestEvery = 2
	}
	for _, p := range append(ctlPrograms(c, fam["one.ndjson"], "o", 1, 0), ctlPrograms(c, fam["nest.ndjson"], "n", nestEvery, c.Seed)...) {
		progs = append(progs, p)
		srcs = append(srcs, RenderProg(p, Style{R: r}))
	}
	files, ok := cachedGenModule(c, "GenSwitch", map[string]int{"MaxCases": 3}, "switches.ndjson")
	if !ok {
		return nil, nil, false
	}
	for i, ln := range files["switches.ndjson"] {
		var f swFam
		if json.Unmarshal([]byte(ln), &f) != nil {
			continue
		}
		// stratified: the rare shape "default with a body, then two or more body-less cases" (its own
		// path in the emitter) is always taken, the rest one in swEvery
		if !rareSwitchShape(&f) && !sampled(i, c.Seed, swEvery) {
			continue
		}
		p := swProgram(fmt.Sprintf("W%d", i), &f)
		progs = append(progs, p)
		srcs = append(srcs, RenderProg(p, Style{R: r}))
	}
	for _, p := range bigPrograms() {
		progs = append(progs, p)
		srcs = append(srcs, RenderProg(p, Style{R: r}))
	}
	shapes, forms, ok := runGenExpr(c, 4)
	if !ok {
		return nil, nil, false
	}
	for i, s := range shapes {
		if !sampled(i, c.Seed, exEvery) {
			continue
		}
		idx := 0
		e := instantiate(s, forms, r.Intn(len(forms)), &idx, r)
		p := condProgram(fmt.Sprintf("E%d", i), e, i%4)
		progs = append(progs, p)
		srcs = append(srcs, RenderProg(p, Style{R: r, Parens: i%2 == 0}))
	}
	return progs, srcs, true
}

// rareSwitchShape: a default with a body followed by at least two body-less cases.
func rareSwitchShape(f *swFam) bool {
	for d, cs := range f.Cases {
		if cs.IsDef && cs.Body != "empty" {
			n := 0
			for _, later := range f.Cases[d+1:] {
				if later.Body == "empty" {
					n++
				}
			}
			return n >= 2
		}
	}
	return false
}

func checkC05(c *Ctx) {
	nr, sw, ex := 250, 9, 12
	if !c.Quick() {
		nr, sw, ex = 4000, 1, 2
	}
	progs, srcs, ok := scriptCorpus(c, nr, sw, ex)
	if !ok {
		return
	}
	base := Opts{AutoVar: genAutoVar()}
	var vv []*VVCase
	var st []*StaticCase
	rejected := 0
	for i, p := range progs {
		o1, o2 := base, base
		o1.Optimize, o2.Optimize = true, false
		r1, r2 := Compile(srcs[i], o1), Compile(srcs[i], o2)
		if r1.Panic != "" || r2.Panic != "" || r1.TimedOut || r2.TimedOut {
			c.Violate(Violation{What: "compiler panicked or hung on a well-formed program", Source: srcs[i], Opts: &o1})
			continue
		}
		if (r1.Err == nil) != (r2.Err == nil) {
			c.Violate(Violation{What: "program accepted with one optimize setting and rejected with the other", Source: srcs[i], Opts: &o1,
				Detail: map[string]interface{}{"err_opt": fmt.Sprint(r1.Err), "err_noopt": fmt.Sprint(r2.Err)}})
			continue
		}
		if r1.Err != nil {
			rejected++
			continue
		}
		id := fmt.Sprintf("p%d", i)
		vc := &VVCase{ID: id, Src: srcs[i], Opts: o1, Out1: r1.Out, Out2: r2.Out}
		for k := range p.Scripts {
			vc.Scripts = append(vc.Scripts, p.Scripts[k].Name)
			vc.Entries = append(vc.Entries, [2]string{p.Scripts[k].Name, p.Scripts[k].Name})
			for _, l := range UserLabels(p.Scripts[k].Body) {
				vc.ULabels = append(vc.ULabels, l)
				vc.Entries = append(vc.Entries, [2]string{l, l})
			}
		}
		vv = append(vv, vc)
		st = append(st, progStaticCase(id+".o1", p, srcs[i], o1, r1.Out), progStaticCase(id+".o0", p, srcs[i], o2, r2.Out))
		if i%400 == 0 {
			c.Sample(map[string]interface{}{"source": srcs[i], "optimized": r1.Out, "unoptimized": r2.Out})
		}
	}
	// whole files: scripts next to mapscripts with inline scripts, texts, movements, marts, raw blocks, inline data
	nfiles := 150
	if !c.Quick() {
		nfiles = 3000
	}
	fr := NewRand(c.Seed*6367 + 55)
	ffc := FileCfg{MaxTops: 4, Inline: true, AutoInline: true, MapScripts: true, Raw: true,
		Ctl: GenCfg{MaxDepth: 3, MaxStmts: 3, MaxLeaves: 3, Auto: true, Switches: true, Gotos: false}}
	for i := 0; i < nfiles; i++ {
		f, av := GenFile(fr, ffc, fmt.Sprint("_", i))
		src, _ := RenderFile(f, Style{R: fr, Layout: i % 3})
		o1 := Opts{Optimize: true, AutoVar: av}
		o2 := o1
		o2.Optimize = false
		r1, r2 := Compile(src, o1), Compile(src, o2)
		if r1.Panic != "" || r2.Panic != "" || (r1.Err == nil) != (r2.Err == nil) {
			c.Violate(Violation{What: "file accepted with one optimize setting and rejected (or crashing) with the other", Source: src, Opts: &o1,
				Detail: map[string]interface{}{"err_opt": fmt.Sprint(r1.Err), "err_noopt": fmt.Sprint(r2.Err), "panic": r1.Panic + r2.Panic}})
			continue
		}
		if r1.Err != nil {
			rejected++
			continue
		}
		id := fmt.Sprintf("file%d", i)
		names, bodies := InlineScripts(f)
		vc := &VVCase{ID: id, Src: src, Opts: o1, Out1: r1.Out, Out2: r2.Out, Scripts: names}
		for k := range names {
			vc.Entries = append(vc.Entries, [2]string{names[k], names[k]})
			for _, l := range UserLabels(bodies[k]) {
				vc.ULabels = append(vc.ULabels, l)
				vc.Entries = append(vc.Entries, [2]string{l, l})
			}
		}
		if len(vc.Entries) > 0 {
			vv = append(vv, vc)
		}
		st = append(st, fileStaticCase(id+".o1", f, src, o1, r1.Out), fileStaticCase(id+".o0", f, src, o2, r2.Out))
	}
	vs := RunVV(c, vv, 3000, "optimized and unoptimized outputs behave differently or define different data/labels", true)
	sr := RunStatic(c, st, false)
	byID := map[string]*StaticCase{}
	for _, s := range st {
		byID[s.ID] = s
	}
	for id, names := range sr.Failing {
		for _, n := range names {
			if n == "NoGotoNext" || n == "NoOrphanSub" {
				s := byID[id]
				c.Violate(Violation{What: "output violates " + n + " (redundant generated goto / unreferenced generated sub-label)",
					Source: s.Src, Opts: &s.Opts, Detail: map[string]interface{}{"output": s.Out}})
			}
		}
	}
	c.Cov("programs", int64(len(progs)))
	c.Cov("pairs_explored", int64(vs.Cases))
	c.Cov("outputs_statically_checked", int64(sr.Cases))
	c.Cov("rejected_by_compiler", int64(rejected))
	c.Cov("states", vs.States+sr.States)
	c.Cov("transitions", vs.Generated+sr.Generated)
	c.Cov("traces_validated_against_impl", int64(vs.Cases))
}

func checkC04(c *Ctx) {
	nr, sw, ex := 250, 9, 12
	if !c.Quick() {
		nr, sw, ex = 4000, 1, 2
	}
	progs, srcs, ok := scriptCorpus(c, nr, sw, ex)
	if !ok {
		return
	}
	base := Opts{AutoVar: genAutoVar()}
	var st []*StaticCase
	rejected := 0
	for i, p := range progs {
		for _, opt := range []bool{true, false} {
			o := base
			o.Optimize = opt
			r := Compile(srcs[i], o)
			if r.Panic != "" || r.TimedOut {
				c.Violate(Violation{What: "compiler panicked or hung on a well-formed program", Source: srcs[i], Opts: &o})
				continue
			}
			if r.Err != nil {
				rejected++
				continue
			}
			st = append(st, progStaticCase(fmt.Sprintf("p%d.o%d", i, b2i(opt)), p, srcs[i], o, r.Out))
			if i%500 == 0 && opt {
				c.Sample(map[string]interface{}{"source": srcs[i], "output": r.Out})
			}
		}
	}
	nfiles := 200
	if !c.Quick() {
		nfiles = 4000
	}
	fr := NewRand(c.Seed*7877 + 44)
	ffc := FileCfg{MaxTops: 4, Inline: true, AutoInline: true, MapScripts: true, Raw: true,
		Ctl: GenCfg{MaxDepth: 3, MaxStmts: 3, MaxLeaves: 3, Auto: true, Switches: true, Gotos: true}}
	for i := 0; i < nfiles; i++ {
		f, av := GenFile(fr, ffc, fmt.Sprint("_", i))
		src, _ := RenderFile(f, Style{R: fr, Layout: i % 3})
		o := Opts{Optimize: i%2 == 0, AutoVar: av}
		r := Compile(src, o)
		if r.Panic != "" || r.TimedOut {
			c.Violate(Violation{What: "compiler panicked or hung on a well-formed file", Source: src, Opts: &o})
			continue
		}
		if r.Err != nil {
			rejected++
			continue
		}
		st = append(st, fileStaticCase(fmt.Sprintf("file%d", i), f, src, o, r.Out))
	}
	c04Report(c, st, RunStatic(c, st, true))
	c04Duplicates(c)
	c.Cov("programs", int64(len(progs)))
	c.Cov("rejected_by_compiler", int64(rejected))
}

// c04Report turns failing C04 predicates / bad endings into violations.
func c04Report(c *Ctx, st []*StaticCase, sr *StaticResult) {
	byID := map[string]*StaticCase{}
	for _, s := range st {
		byID[s.ID] = s
	}
	for id, names := range sr.Failing {
		for _, n := range names {
			switch n {
			case "UniqueLabels", "RefsResolved", "UserLabelsOnce":
				s := byID[id]
				c.Violate(Violation{What: "output is not closed: " + n + " fails", Source: s.Src, Opts: &s.Opts,
					Detail: map[string]interface{}{"output": s.Out}})
			case "LabIndexSound":
				c.Fatal("harness label index inconsistent for case %s", id)
			}
		}
	}
	for id := range sr.BadEnd {
		s := byID[id]
		c.Violate(Violation{What: "execution can run off the end of a script, reach a dangling generated label or branch on an undefined comparison",
			Source: s.Src, Opts: &s.Opts, Detail: map[string]interface{}{"output": s.Out}})
	}
	c.Cov("outputs_checked", int64(sr.Cases))
	c.Cov("states", sr.States)
	c.Cov("transitions", sr.Generated)
	c.Cov("traces_validated_against_impl", int64(sr.Cases))
}

// c04Duplicates: the author gives the same name to two things.  The output can only be closed
// if the program is rejected; an accepted program defines the label twice.  One case per
// unordered pair of kinds (x with/without an inline text elsewhere in the file x optimize);
// the violation key names the pair, so that the pairs listed as open findings stay quiet and
// any other pair is reported.
func c04Duplicates(c *Ctx) {
	kinds := []string{"script", "mapscripts", "text", "movement", "mart", "label"}
	mk := func(kind, name string, idx int) Top {
		switch kind {
		case "script":
			return Top{K: "script", Name: name, Body: []Stmt{{K: "cmd", Toks: []string{fmt.Sprintf("c%d", idx)}}}}
		case "mapscripts":
			return Top{K: "mapscripts", Name: name, MS: []MSEntry{{Type: "MAP_SCRIPT_ON_LOAD", Kind: "plain", Target: "Elsewhere"}}}
		case "text":
			return Top{K: "text", Name: name, Text: &TextLit{Parts: []string{fmt.Sprintf("t%d", idx)}}}
		case "movement":
			return Top{K: "movement", Name: name, Items: []ListItem{{Name: fmt.Sprintf("walk_%d", idx)}}}
		case "mart":
			return Top{K: "mart", Name: name, Items: []ListItem{{Name: fmt.Sprintf("ITEM_%d", idx)}}}
		}
		return Top{K: "script", Name: fmt.Sprintf("Host%d", idx), Body: []Stmt{{K: "cmd", Toks: []string{"before"}}, {K: "label", Name: name}, {K: "cmd", Toks: []string{"after"}}}}
	}
	var st []*StaticCase
	keyOf := map[string]string{}
	rejected, accepted := 0, 0
	for i, k1 := range kinds {
		for j, k2 := range kinds {
			for v := 0; v < 2; v++ {
				f := &File{Tops: []Top{mk(k1, "Same", 1), {K: "script", Name: "Between", Body: []Stmt{{K: "cmd", Toks: []string{"nop"}}}}, mk(k2, "Same", 2)}}
				if v == 1 {
					f.Tops[1].Body = []Stmt{{K: "cmd", Toks: []string{"msgbox", "@inl0"}, Inl: []Inline{{Kind: "text", Parts: []string{"hello"}}}}}
				}
				src, _ := RenderFile(f, Style{Layout: v})
				for _, opt := range []bool{true, false} {
					o := Opts{Optimize: opt}
					r := Compile(src, o)
					if r.Panic != "" || r.TimedOut {
						c.Violate(Violation{What: "compiler panicked or hung on a file with a duplicated name", Source: src, Opts: &o})
						continue
					}
					if r.Err != nil {
						rejected++
						continue
					}
					accepted++
					id := fmt.Sprintf("dup%d.%d.%d.o%d", i, j, v, b2i(opt))
					a, b := k1, k2
					if i > j {
						a, b = k2, k1
					}
					keyOf[id] = "dup:" + a + "/" + b
					st = append(st, &StaticCase{ID: id, Src: src, Opts: o, Out: r.Out, Scopes: map[string]string{}})
				}
			}
		}
	}
	sr := RunStatic(c, st, false)
	byID := map[string]*StaticCase{}
	for _, s := range st {
		byID[s.ID] = s
	}
	seen := map[string]bool{}
	for id, names := range sr.Failing {
		for _, n := range names {
			if n == "UniqueLabels" && !seen[keyOf[id]] {
				seen[keyOf[id]] = true
				s := byID[id]
				c.Violate(Violation{Key: keyOf[id], What: "a program giving the same name to two things (" + strings.TrimPrefix(keyOf[id], "dup:") + ") is accepted and the label is defined twice",
					Source: s.Src, Opts: &s.Opts, Detail: map[string]interface{}{"output": s.Out}})
			}
		}
	}
	c.Cov("duplicate_name_files_rejected", int64(rejected))
	c.Cov("duplicate_name_files_accepted", int64(accepted))
}
