package main

// Decorating a poryswitch-free file R with poryswitch nodes so that, for a
// given switch assignment, the decorated file P resolves to R *by
// construction*: every wrapper's selected case holds the original content, the
// other cases hold distractors.  The selection rule used for the construction
// is the one of spec/Poryswitch.tla (Selected), and every wrapper is handed to
// TLC to be checked against it.

import (
	"fmt"
)

// Wrapper records one generated poryswitch for validation against the spec.
type Wrapper struct {
	Switch   string   `json:"switch"`
	Val      string   `json:"val"`      // value of the switch ("" if unset)
	Cases    []string `json:"cases"`    // case values in source order
	Intended int      `json:"intended"` // 1-based index of the case meant to be selected, 0 = none (error)
}

type psGen struct {
	r        *Rand
	sw       map[string]string
	wrappers []Wrapper
	seq      int
	inline   bool // distractors may contain inline text
	noDefect bool
	// kinds of positions to decorate
	stmts, texts, lists bool
	failOne             bool // make exactly one wrapper unresolvable
	failed              bool
}

var psSwitchNames = []string{"GAME", "LANG"}
var psCaseVals = []string{"RUBY", "EMERALD", "FIRERED", "EN", "DE", "1", "42"}

// plan decides the case list of one wrapper: returns case values and the index
// (0-based) that holds the real content, or -1 when the wrapper is to fail.
func (g *psGen) plan() (sw string, vals []string, sel int) {
	r := g.r
	sw = r.Pick(psSwitchNames)
	val := g.sw[sw]
	n := 1 + r.Intn(3)
	perm := r.Perm(len(psCaseVals))
	var others []string
	for _, k := range perm {
		if psCaseVals[k] != val && len(others) < n {
			others = append(others, psCaseVals[k])
		}
	}
	if g.failOne && !g.failed {
		// no matching case and no '_'
		g.failed = true
		vals = others
		g.wrappers = append(g.wrappers, Wrapper{Switch: sw, Val: val, Cases: vals, Intended: 0})
		return sw, vals, -1
	}
	// a case value is a single identifier or integer token: a switch value that is not
	// one (for instance one that contains '=') can only be served by '_'
	simple := val != ""
	for _, ch := range val {
		if !(ch == '_' || ch >= '0' && ch <= '9' || ch >= 'a' && ch <= 'z' || ch >= 'A' && ch <= 'Z') {
			simple = false
		}
	}
	byMatch := r.Chance(1, 2) && simple
	withDefault := !byMatch || r.Chance(1, 2)
	vals = others
	selName := val
	if !byMatch {
		selName = "_"
	}
	// insert the selected case at a random position, and (if matching) maybe a '_' too
	pos := r.Intn(len(vals) + 1)
	vals = append(vals[:pos], append([]string{selName}, vals[pos:]...)...)
	if byMatch && withDefault {
		p2 := r.Intn(len(vals) + 1)
		vals = append(vals[:p2], append([]string{"_"}, vals[p2:]...)...)
	}
	for i, v := range vals {
		if v == selName {
			sel = i
		}
	}
	g.wrappers = append(g.wrappers, Wrapper{Switch: sw, Val: val, Cases: vals, Intended: sel + 1})
	return sw, vals, sel
}

func (g *psGen) distractorStmts(brace bool) []Stmt {
	r := g.r
	n := 1
	if brace {
		n = r.Intn(3)
	}
	var out []Stmt
	for i := 0; i < n; i++ {
		g.seq++
		if g.inline && r.Chance(1, 2) {
			out = append(out, Stmt{K: "cmd", Toks: []string{fmt.Sprintf("dmsg%d", g.seq), "@inl0"},
				Inl: []Inline{{Kind: "text", Parts: []string{fmt.Sprintf("distractor %d", r.Intn(3))}, Type: r.Pick([]string{"", "ascii"})}}})
		} else if g.inline && r.Chance(1, 3) {
			out = append(out, Stmt{K: "cmd", Toks: []string{fmt.Sprintf("dmov%d", g.seq), "@inl0"},
				Inl: []Inline{{Kind: "moves", Steps: []ListItem{{Name: "jump_2_left"}, {Name: "walk_up", Mul: "2"}}}}})
		} else {
			out = append(out, Stmt{K: "cmd", Toks: []string{fmt.Sprintf("dcmd%d", g.seq), "D"}})
		}
	}
	return out
}

func endsWithContinue(body []Stmt) bool {
	return len(body) > 0 && body[len(body)-1].K == "continue"
}

// wrapStmts wraps a run of statements in a poryswitch statement.
func (g *psGen) wrapStmts(run []Stmt) Stmt {
	sw, vals, sel := g.plan()
	ps := Stmt{K: "poryswitch", V: sw}
	for i, v := range vals {
		c := PCase{Val: v}
		if i == sel {
			c.Body = run
			// the colon form holds exactly one statement
			c.Brace = len(run) != 1 || g.r.Chance(1, 2) || run[0].K == "continue"
		} else {
			c.Brace = g.r.Chance(1, 2)
			c.Body = g.distractorStmts(c.Brace)
			if !c.Brace && len(c.Body) != 1 {
				c.Brace = true
			}
		}
		ps.PCases = append(ps.PCases, c)
	}
	return ps
}

// decorateBody wraps random runs of statements of a body (recursively).
func (g *psGen) decorateBody(body []Stmt, depth int) []Stmt {
	r := g.r
	for i := range body {
		s := &body[i]
		switch s.K {
		case "if":
			for j := range s.Arms {
				s.Arms[j].Body = g.decorateBody(s.Arms[j].Body, depth+1)
			}
			if s.HasElse {
				s.Els = g.decorateBody(s.Els, depth+1)
			}
		case "while", "dowhile":
			s.Body = g.decorateBody(s.Body, depth+1)
		case "switch":
			for j := range s.Cases {
				s.Cases[j].Body = g.decorateBody(s.Cases[j].Body, depth+1)
			}
		}
	}
	if !g.stmts {
		return body
	}
	var out []Stmt
	i := 0
	for i < len(body) {
		if r.Chance(1, 4) {
			n := 1 + r.Intn(2)
			if i+n > len(body) {
				n = len(body) - i
			}
			run := append([]Stmt{}, body[i:i+n]...)
			// 'continue' must stay directly before a closing brace: only wrap it
			// as the last statement of a brace case at the end of the block
			if endsWithContinue(run) && i+n != len(body) {
				out = append(out, body[i])
				i++
				continue
			}
			hasCont := false
			for _, x := range run[:len(run)-1] {
				if x.K == "continue" {
					hasCont = true
				}
			}
			if hasCont {
				out = append(out, body[i])
				i++
				continue
			}
			w := g.wrapStmts(run)
			if depth < 3 && r.Chance(1, 4) {
				// nest: wrap the wrapper again
				w = g.wrapStmts([]Stmt{w})
			}
			out = append(out, w)
			i += n
			continue
		}
		out = append(out, body[i])
		i++
	}
	// occasionally an empty selected case
	if !endsWithContinue(out) && r.Chance(1, 10) {
		out = append(out, g.wrapStmts([]Stmt{}))
	}
	return out
}

func (g *psGen) wrapItems(run []ListItem, distract func() []ListItem, allowBrace bool) ListItem {
	sw, vals, sel := g.plan()
	ps := &ListPS{Switch: sw}
	for i, v := range vals {
		c := ListPSCase{Val: v}
		if i == sel {
			c.Items = run
			c.Brace = len(run) != 1 || g.r.Chance(1, 2)
		} else {
			c.Items = distract()
			c.Brace = len(c.Items) != 1 || g.r.Chance(1, 2)
		}
		if !allowBrace && c.Brace {
			// keep to the colon form: exactly one item
			if i == sel {
				return ListItem{}
			}
			c.Items = c.Items[:1]
			c.Brace = false
		}
		if !c.Brace {
			// the colon form holds exactly one item; a comma after it would not
			// belong to the case
			for k := range c.Items {
				c.Items[k].Comma = false
			}
		}
		ps.Cases = append(ps.Cases, c)
	}
	return ListItem{PS: ps}
}

func (g *psGen) decorateList(items []ListItem, distract func() []ListItem, allowBrace bool) []ListItem {
	if !g.lists {
		return items
	}
	var out []ListItem
	i := 0
	for i < len(items) {
		if g.r.Chance(1, 3) {
			n := 1 + g.r.Intn(2)
			if i+n > len(items) {
				n = len(items) - i
			}
			if !allowBrace {
				n = 1
			}
			run := append([]ListItem{}, items[i:i+n]...)
			nw := len(g.wrappers)
			w := g.wrapItems(run, distract, allowBrace)
			if w.PS == nil {
				g.wrappers = g.wrappers[:nw]
				out = append(out, items[i])
				i++
				continue
			}
			if allowBrace && g.r.Chance(1, 4) {
				// nested: the poryswitch is itself the content of a selected case
				if w2 := g.wrapItems([]ListItem{w}, distract, true); w2.PS != nil {
					w = w2
				}
			}
			out = append(out, w)
			i += n
			continue
		}
		out = append(out, items[i])
		i++
	}
	// occasionally a poryswitch whose selected case is empty
	if allowBrace && g.r.Chance(1, 6) {
		w := g.wrapItems([]ListItem{}, distract, true)
		if w.PS != nil {
			k := g.r.Intn(len(out) + 1)
			out = append(out[:k], append([]ListItem{w}, out[k:]...)...)
		}
	}
	return out
}

func (g *psGen) decorateText(t *TextLit) *TextLit {
	if !g.texts || t.PS != nil || !g.r.Chance(1, 2) {
		return t
	}
	sw, vals, sel := g.plan()
	ps := &TextPS{Switch: sw}
	for i, v := range vals {
		c := TextPSCase{Val: v, Brace: g.r.Chance(1, 2)}
		if i == sel {
			c.Text = *t
		} else {
			c.Text = TextLit{Parts: []string{fmt.Sprintf("other %d", i)}, Type: g.r.Pick([]string{"", "ascii", "braille"})}
		}
		ps.Cases = append(ps.Cases, c)
	}
	return &TextLit{PS: ps}
}

func (g *psGen) decorateInlines(inl []Inline) {
	for k := range inl {
		if inl[k].Kind == "moves" {
			inl[k].Steps = g.decorateList(inl[k].Steps, g.distractSteps, !g.noDefect || true)
		}
	}
}

func (g *psGen) distractSteps() []ListItem {
	n := 1 + g.r.Intn(2)
	var out []ListItem
	for i := 0; i < n; i++ {
		out = append(out, ListItem{Name: g.r.Pick([]string{"jump_left", "lock_facing", "step_end"}), Mul: g.r.Pick([]string{"", "", "2"})})
	}
	return out
}

func (g *psGen) distractItems() []ListItem {
	n := 1 + g.r.Intn(2)
	var out []ListItem
	for i := 0; i < n; i++ {
		out = append(out, ListItem{Name: g.r.Pick([]string{"ITEM_OTHER", "ITEM_NONE", "ITEM_X"})})
	}
	return out
}

func (g *psGen) decorateInlinesInBody(body []Stmt) {
	walkStmts(body, func(s *Stmt) {
		if s.K == "cmd" {
			g.decorateInlines(s.Inl)
		}
	})
}

// DecorateFile returns a deep copy of R decorated with poryswitch nodes that
// resolve to R under the assignment sw, and the wrappers it created.
func DecorateFile(R *File, sw map[string]string, r *Rand, stmts, texts, lists, failOne bool) (*File, []Wrapper) {
	P := cloneFile(R)
	g := &psGen{r: r, sw: sw, inline: true, stmts: stmts, texts: texts, lists: lists, failOne: failOne}
	for i := range P.Tops {
		t := &P.Tops[i]
		switch t.K {
		case "script":
			g.decorateInlinesInBody(t.Body)
			t.Body = g.decorateBody(t.Body, 0)
		case "text":
			t.Text = g.decorateText(t.Text)
		case "movement":
			t.Items = g.decorateList(t.Items, g.distractSteps, true)
		case "mart":
			t.Items = g.decorateList(t.Items, g.distractItems, true)
		case "mapscripts":
			for j := range t.MS {
				e := &t.MS[j]
				if e.Kind == "inline" {
					g.decorateInlinesInBody(e.Body)
					e.Body = g.decorateBody(e.Body, 0)
				}
				for k := range e.Table {
					if e.Table[k].Kind == "inline" {
						e.Table[k].Body = g.decorateBody(e.Table[k].Body, 0)
					}
				}
			}
		}
	}
	return P, g.wrappers
}

func cloneFile(f *File) *File {
	b, err := jsonMarshal(f)
	if err != nil {
		panic(err)
	}
	var g File
	if err := jsonUnmarshal(b, &g); err != nil {
		panic(err)
	}
	return &g
}
