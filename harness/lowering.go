package main

// ./check lowering : conformance of the real emitter with spec/Lowering.tla (the
// emitter's algorithm as a TLA+ state machine).  Not a property check: a
// mismatch is drift between the model and the implementation.

import (
	"fmt"
	"os"
	"strings"
	"time"

	"github.com/huderlem/poryscript/ast"
	"github.com/huderlem/poryscript/lexer"
	"github.com/huderlem/poryscript/parser"
	"github.com/huderlem/poryscript/token"
)

func init() {
	register("lowering", "other", checkLowering)
}

// astProg parses src with the real parser and converts the scripts of the AST.
func astProg(src string, cc parser.CommandConfig) (*ast.Program, *Prog, []bool, error) {
	var prog *ast.Program
	var err error
	func() {
		defer func() {
			if r := recover(); r != nil {
				err = fmt.Errorf("panic: %v", r)
			}
		}()
		prog, err = parser.New(lexer.New(src), cc, "", "", 0, nil).ParseProgram()
	}()
	if err != nil {
		return nil, nil, nil, err
	}
	p := &Prog{}
	var globs []bool
	for _, st := range prog.TopLevelStatements {
		if x, ok := st.(*ast.ScriptStatement); ok {
			body, err := convBlock(x.Body)
			if err != nil {
				return nil, nil, nil, err
			}
			p.Scripts = append(p.Scripts, Script{Name: x.Name.Value, Body: body})
			globs = append(globs, x.Scope == token.GLOBAL)
		}
	}
	return prog, p, globs, nil
}

func checkLowering(c *Ctx) {
	r := NewRand(c.Seed*1009 + 77)
	var srcs []string
	cfg := GenCfg{MaxDepth: 3, MaxStmts: 3, MaxLeaves: 3, Auto: true, Switches: true, Gotos: true, NScripts: 2}
	nrand := 200
	if os.Getenv("LOWERING_MINI") != "" {
		nrand = 3
		fmt.Sscanf(os.Getenv("LOWERING_NRAND"), "%d", &nrand)
	}
	if !c.Quick() {
		nrand = 3000
	}
	for i := 0; i < nrand; i++ {
		srcs = append(srcs, RenderProg(GenProg(r, cfg, fmt.Sprintf("%d_", i)), Style{R: r, Parens: r.Chance(1, 3), Layout: 0}))
	}
	if fam, ok := cachedGenModule(c, "GenCtl", map[string]int{"Level": 2}, "one.ndjson", "nest.ndjson"); ok {
		every := 20
		if !c.Quick() {
			every = 2
		}
		for _, p := range append(ctlPrograms(c, fam["one.ndjson"], "lo", 1, 0), ctlPrograms(c, fam["nest.ndjson"], "ln", every, c.Seed)...) {
			srcs = append(srcs, RenderProg(p, Style{R: r}))
		}
	}
	if fam, ok := cachedGenModule(c, "GenSwitch", map[string]int{"MaxCases": 3}, "switches.ndjson"); ok {
		for i, ln := range fam["switches.ndjson"] {
			if !sampled(i, c.Seed, 4) && c.Quick() {
				continue
			}
			var f swFam
			if jsonUnmarshal([]byte(ln), &f) == nil {
				srcs = append(srcs, RenderProg(swProgram(fmt.Sprintf("W%d", i), &f), Style{R: r}))
			}
		}
	}
	srcs = append(srcs, corpusLiterals()...)
	if os.Getenv("LOWERING_MINI") != "" {
		n := 0
		fmt.Sscanf(os.Getenv("LOWERING_MINI"), "%d", &n)
		if n < 0 {
			srcs = srcs[len(srcs)+n:]
		} else {
			srcs = srcs[:n]
		}
	}
	cc := Opts{AutoVar: genAutoVar()}.commandConfig()
	for k, v := range repoCommandConfig().AutoVarCommands {
		cc.AutoVarCommands[k] = v
	}
	var all []map[string]interface{}
	srcOf := map[string]string{}
	ncases := 0
	const batch = 6000 // scripts per TLC run (a run of 16 000 takes 2.5 min; the thorough family is several times that)
	batchData := func(from int) []byte {
		var nd NDJSON
		to := from + batch
		if to > len(all) {
			to = len(all)
		}
		for _, r := range all[from:to] {
			nd.Add(r)
		}
		return nd.Bytes()
	}
	flush := func() (map[string]bool, int64, bool) {
		bad := map[string]bool{}
		var states int64
		for from := 0; from < len(all); from += batch {
			data := batchData(from)
			if d := os.Getenv("LOWERING_DUMP"); d != "" && from == 0 {
				os.WriteFile(d, data, 0o644)
			}
			res, err := RunTLC("lowering", TLCJob{Module: "LoweringConform", Cfg: "LoweringConform.cfg", Data: map[string][]byte{"lowering.ndjson": data},
				Workers: c.Workers, Timeout: 30 * time.Minute, HeapGB: 12})
			if err != nil || !res.Clean() {
				c.Fatal("LoweringConform run failed: %v\n%s", err, tail(res.Output, 4000))
				return nil, 0, false
			}
			for _, m := range reCaseFlag.FindAllStringSubmatch(res.Output, -1) {
				bad[m[3]] = true
			}
			states += res.Distinct
		}
		return bad, states, true
	}
	for i, src := range srcs {
		prog, p, globs, err := astProg(src, cc)
		if err != nil || len(p.Scripts) == 0 || usesControlOpsAsCommands(p) {
			continue
		}
		names := map[string]bool{}
		dup := false
		for _, s := range p.Scripts {
			if names[s.Name] {
				dup = true
			}
			names[s.Name] = true
		}
		if dup {
			continue
		}
		flat := Flatten(p)
		for _, opt := range []bool{true, false} {
			res := emitOnly(prog, opt)
			if res.Err != nil || res.Panic != "" {
				continue
			}
			pa := ParseAsm(res.Out)
			ul := map[string]bool{}
			for _, s := range p.Scripts {
				for _, l := range UserLabels(s.Body) {
					ul[l] = true
				}
			}
			AnnotateRoles(pa, names, ul)
			for si, s := range p.Scripts {
				lines := []map[string]interface{}{}
				on := false
				for _, ln := range pa.Lines {
					if ln["k"] == "label" && ln["name"] == s.Name && !on {
						on = true
					} else if on && ln["k"] == "label" && (ln["role"] == "entry" || ln["role"] == "data") {
						break
					}
					if !on {
						continue
					}
					switch ln["k"] {
					case "label":
						lines = append(lines, map[string]interface{}{"k": "label", "name": ln["name"], "g": ln["g"]})
					case "ins":
						lines = append(lines, map[string]interface{}{"k": "ins", "toks": ln["toks"]})
					}
				}
				id := fmt.Sprintf("p%d.s%d.o%d", i, si, b2i(opt))
				srcOf[id] = src
				// self-contained: every goto of the script stays inside it or leaves the file
				self := true
				own := map[string]bool{}
				for _, l := range UserLabels(s.Body) {
					own[l] = true
				}
				walkStmts(s.Body, func(st *Stmt) {
					if st.K == "cmd" && st.Toks[0] == "goto" && len(st.Toks) == 2 {
						t := st.Toks[1]
						if !own[t] && (ul[t] || names[t]) {
							self = false
						}
					}
				})
				all = append(all, map[string]interface{}{"id": id, "N": flat.N, "E": flat.E, "ulab": flat.ULab, "sroot": flat.SRoot, "name": s.Name, "root": flat.SRoot[s.Name],
					"glob": globs[si], "opt": opt, "lines": lines, "selfcontained": self})
				ncases++
			}
		}
	}
	bad, states, ok := flush()
	if !ok {
		return
	}
	// design level: the model's own output, explored against the reference semantics of the same tables
	nref := 0
	var refStates int64
	for from := 0; from < len(all); from += batch {
		rres, rerr := RunTLC("loweringrefine", TLCJob{Module: "LoweringRefine", Cfg: "LoweringRefine.cfg", Data: map[string][]byte{"lowering.ndjson": batchData(from)},
			Workers: c.Workers, Timeout: 40 * time.Minute, HeapGB: 12})
		if rerr != nil || !rres.Clean() {
			c.Fatal("LoweringRefine run failed: %v\n%s", rerr, tail(rres.Output, 4000))
			return
		}
		for _, m := range reDiverged.FindAllStringSubmatch(rres.Output, -1) {
			nref++
			if nref <= 5 {
				fmt.Printf("DESIGN the Lowering model's output does not refine PoryLang: %s\n%s\n", m[3], srcOf[m[3]])
			}
		}
		refStates += rres.Distinct
	}
	fmt.Printf("lowering-refine: %d product states explored over the model's own outputs, %d divergences\n", refStates, nref)
	c.Cov("lowering_refine_states", refStates)
	if nref > 0 {
		c.Fatal("the Lowering model's output does not refine the reference semantics on %d scripts", nref)
	}
	n := 0
	for id := range bad {
		n++
		if n <= 5 {
			fmt.Printf("DRIFT lowering model vs real emitter: %s\n%s\n", id, srcOf[id])
		}
	}
	fmt.Printf("lowering: %d scripts compared, %d drift\n", ncases, len(bad))
	c.CovSet("explanation", fmt.Sprintf("Lowering.tla run on the real parser's AST of %d scripts (seeded programs, GenCtl, GenSwitch, repository test literals; optimize on and off) and compared line for line with the real emitter: %d differ", ncases, len(bad)))
	c.Cov("evaluations", int64(ncases))
	c.Cov("distinct_nontrivial", int64(ncases))
	c.Cov("states", states)
	c.Cov("drift", int64(len(bad)))
	if len(bad) > 0 {
		c.Fatal("the Lowering model and the real emitter differ on %d scripts (drift, not a property violation)", len(bad))
	}
	_ = strings.Join
}
