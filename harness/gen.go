package main

// Seeded random generator of well-formed script bodies (the non-exhaustive,
// deeper input family; the exhaustive ones come from spec/Gen*.tla).

import (
	"fmt"
	"math/rand"
)

// Rand is a seeded PRNG.
type Rand struct{ *rand.Rand }

func NewRand(seed int64) *Rand { return &Rand{rand.New(rand.NewSource(seed))} }

func (r *Rand) Pick(a []string) string { return a[r.Intn(len(a))] }
func (r *Rand) Chance(num, den int) bool {
	return r.Intn(den) < num
}

// The AutoVar configuration used by all generated programs.
func genAutoVar() map[string]AutoV {
	zero, one := 0, 1
	return map[string]AutoV{
		"autoa": {VarName: "VAR_RESULT"},
		"autob": {ArgPos: &zero},
		"autoc": {VarName: "VAR_0x8004"},
		"autod": {ArgPos: &one},
	}
}

// GenCfg bounds the random programs.
type GenCfg struct {
	MaxDepth  int
	MaxStmts  int
	MaxLeaves int
	Auto      bool
	Switches  bool
	Gotos     bool
	NScripts  int
}

type gen struct {
	r        *Rand
	cfg      GenCfg
	labelSeq int
	labels   []string // label names handed out so far
	script   string
}

var (
	genFlags    = []string{"FLAG_A", "FLAG_B", "FLAG_C"}
	genVars     = []string{"VAR_X", "VAR_Y"}
	genTrainers = []string{"TRAINER_1", "TRAINER_2"}
	genVals     = []string{"0", "1", "2", "5", "VAR_Y", "0x10", "-1"}
	genCaseVals = []string{"0", "1", "2", "3", "ITEM_A", "0x4"}
	genOps      = []string{"==", "!=", "<", "<=", ">", ">="}
)

func (g *gen) leaf() *Expr {
	r := g.r
	e := &Expr{K: "leaf"}
	k := r.Intn(10)
	if k >= 8 && !g.cfg.Auto {
		k = r.Intn(8)
	}
	switch {
	case k < 4:
		e.Typ = "flag"
		e.Opnd = r.Pick(genFlags)
	case k < 7:
		e.Typ = "var"
		e.Opnd = r.Pick(genVars)
	case k < 8:
		e.Typ = "defeated"
		e.Opnd = r.Pick(genTrainers)
	default:
		e.Typ = "auto"
		switch r.Intn(4) {
		case 0:
			e.Toks = []string{"autoa"}
			e.Opnd = "VAR_RESULT"
		case 1:
			e.Toks = []string{"autob", "VAR_T", ",", "FUNC_" + fmt.Sprint(r.Intn(2))}
			e.Opnd = "VAR_T"
		case 2:
			e.Toks = []string{"autoc", "ITEM_" + fmt.Sprint(r.Intn(2))}
			e.Opnd = "VAR_0x8004"
		default:
			e.Toks = []string{"autod", "1", ",", "VAR_U"}
			e.Opnd = "VAR_U"
		}
	}
	switch r.Intn(3) {
	case 0:
		e.Form = "bare"
	case 1:
		e.Form = "not"
	default:
		e.Form = "cmp"
		if e.Typ == "flag" || e.Typ == "defeated" {
			e.Op = []string{"==", "!="}[r.Intn(2)]
			e.Val = []string{"TRUE", "FALSE", "true", "false"}[r.Intn(4)]
		} else {
			e.Op = r.Pick(genOps)
			e.Val = r.Pick(genVals)
			if r.Chance(1, 6) {
				e.Val = "VAR_Y + 1"
			}
			if r.Chance(1, 5) {
				e.Strict = true
			}
		}
	}
	return e
}

func (g *gen) expr(leaves int) *Expr {
	if leaves <= 1 {
		l := g.leaf()
		if g.r.Chance(1, 8) {
			return &Expr{K: "not", E: l}
		}
		return l
	}
	nl := 1 + g.r.Intn(leaves-1)
	e := &Expr{K: []string{"and", "or"}[g.r.Intn(2)], L: g.expr(nl), R: g.expr(leaves - nl)}
	if g.r.Chance(1, 5) {
		return &Expr{K: "not", E: e}
	}
	return e
}

func (g *gen) cond() *Expr {
	n := 1
	for n < g.cfg.MaxLeaves && g.r.Chance(2, 5) {
		n++
	}
	return g.expr(n)
}

type genCtx struct {
	depth    int
	inLoop   bool
	inBreak  bool // loop or switch encloses
	brace    bool // the block being generated is a {} block (continue may end it)
	caseBody bool
}

func (g *gen) cmd() Stmt {
	r := g.r
	switch r.Intn(12) {
	case 0:
		return Stmt{K: "cmd", Toks: []string{"end"}}
	case 1:
		return Stmt{K: "cmd", Toks: []string{"return"}}
	case 2:
		if g.cfg.Gotos {
			// a label of this file (defined or not yet / never) or an external name
			if len(g.labels) > 0 && r.Chance(3, 4) {
				return Stmt{K: "cmd", Toks: []string{"goto", r.Pick(g.labels)}}
			}
			return Stmt{K: "cmd", Toks: []string{"goto", []string{"Elsewhere", "Other_Script"}[r.Intn(2)]}}
		}
	case 3:
		return Stmt{K: "cmd", Toks: []string{"call", "Common_Sub"}}
	case 4:
		return Stmt{K: "cmd", Toks: []string{"setvar", r.Pick(genVars), ",", r.Pick(genVals)}}
	case 5:
		return Stmt{K: "cmd", Toks: []string{"setflag", r.Pick(genFlags)}}
	case 6:
		return Stmt{K: "cmd", Toks: []string{"lock"}}
	}
	return Stmt{K: "cmd", Toks: []string{fmt.Sprintf("cmd%c", 'a'+rune(r.Intn(6)))}}
}

func (g *gen) newLabel() string {
	g.labelSeq++
	n := fmt.Sprintf("Lab%d", g.labelSeq)
	g.labels = append(g.labels, n)
	return n
}

func (g *gen) block(ctx genCtx, maxStmts int) []Stmt {
	r := g.r
	n := r.Intn(maxStmts + 1)
	out := []Stmt{}
	for i := 0; i < n; i++ {
		last := i == n-1
		k := r.Intn(100)
		d := ctx.depth
		switch {
		case k < 34 || d >= g.cfg.MaxDepth && k < 80:
			out = append(out, g.cmd())
		case k < 42:
			lab := Stmt{K: "label", Name: g.newLabel(), G: r.Chance(1, 6)}
			lab.LMod = !lab.G && r.Chance(1, 6)
			out = append(out, lab)
		case k < 50 && ctx.inBreak:
			out = append(out, Stmt{K: "break"})
		case k < 55 && ctx.inLoop && ctx.brace && last:
			out = append(out, Stmt{K: "continue"})
		case d >= g.cfg.MaxDepth:
			out = append(out, g.cmd())
		case k < 70:
			s := Stmt{K: "if"}
			narms := 1
			for narms < 3 && r.Chance(1, 3) {
				narms++
			}
			sub := genCtx{depth: d + 1, inLoop: ctx.inLoop, inBreak: ctx.inBreak, brace: true}
			for a := 0; a < narms; a++ {
				s.Arms = append(s.Arms, Arm{Cond: g.cond(), Body: g.block(sub, g.cfg.MaxStmts)})
			}
			if r.Chance(1, 2) {
				s.HasElse = true
				s.Els = g.block(sub, g.cfg.MaxStmts)
			}
			out = append(out, s)
		case k < 80:
			s := Stmt{K: "while"}
			if r.Chance(4, 5) {
				s.HasCond = true
				s.Cond = g.cond()
			}
			s.Body = g.block(genCtx{depth: d + 1, inLoop: true, inBreak: true, brace: true}, g.cfg.MaxStmts)
			out = append(out, s)
		case k < 87:
			s := Stmt{K: "dowhile", Cond: g.cond()}
			s.Body = g.block(genCtx{depth: d + 1, inLoop: true, inBreak: true, brace: true}, g.cfg.MaxStmts)
			out = append(out, s)
		default:
			if !g.cfg.Switches {
				out = append(out, g.cmd())
				break
			}
			out = append(out, g.switchStmt(ctx))
		}
	}
	return out
}

func (g *gen) switchStmt(ctx genCtx) Stmt {
	r := g.r
	s := Stmt{K: "switch", V: r.Pick(genVars)}
	if g.cfg.Auto && r.Chance(1, 5) {
		s.Pre = []string{"autob", "VAR_T", ",", "FUNC_1"}
		s.V = "VAR_T"
	}
	nc := 1 + r.Intn(4)
	vals := r.Perm(len(genCaseVals))
	defAt := -1
	if r.Chance(1, 2) {
		defAt = r.Intn(nc)
	}
	sub := genCtx{depth: ctx.depth + 1, inLoop: ctx.inLoop, inBreak: true, brace: false, caseBody: true}
	for i := 0; i < nc; i++ {
		c := Case{IsDef: i == defAt, Body: []Stmt{}}
		if !c.IsDef {
			c.Val = genCaseVals[vals[i]]
		}
		if r.Chance(2, 3) {
			c.Body = g.block(sub, g.cfg.MaxStmts)
		}
		s.Cases = append(s.Cases, c)
	}
	return s
}

// GenProg makes one random program.
func GenProg(r *Rand, cfg GenCfg, tag string) *Prog {
	g := &gen{r: r, cfg: cfg}
	p := &Prog{}
	ns := 1
	if cfg.NScripts > 1 {
		ns = 1 + r.Intn(cfg.NScripts)
	}
	for i := 0; i < ns; i++ {
		name := fmt.Sprintf("Scr%s%d", tag, i)
		g.script = name
		body := g.block(genCtx{depth: 0, brace: true}, cfg.MaxStmts+2)
		sc := Script{Name: name, Body: body}
		switch r.Intn(4) {
		case 0:
			sc.Scope = "local"
		case 1:
			sc.Scope = "global"
		}
		p.Scripts = append(p.Scripts, sc)
	}
	return p
}

// sampled says whether member i of an enumerated family is taken when only one in `every` is:
// by a hash of the index, not the index itself, because enumeration order is regular
// (e.g. a boolean field alternates) and a modulus would take the same kind of member every time.
func sampled(i int, seed int64, every int) bool {
	if every <= 1 {
		return true
	}
	h := uint64(i)*0x9E3779B97F4A7C15 + uint64(seed)*0xBF58476D1CE4E5B9
	h ^= h >> 31
	h *= 0x94D049BB133111EB
	h ^= h >> 29
	return h%uint64(every) == 0
}
