package main

import (
	"fmt"
)

func init() {
	register("C01", "model_checking", checkC01)
}

// compileBoth compiles a program with optimize on and off and appends the
// accepted ones as cases.
func compileBoth(c *Ctx, id string, p *Prog, src string, base Opts, cases *[]*RefCase, rejected *int) {
	for _, opt := range []bool{true, false} {
		o := base
		o.Optimize = opt
		res := Compile(src, o)
		if res.Panic != "" || res.TimedOut {
			c.Violate(Violation{What: "compiler panicked or hung on a well-formed program", Source: src, Opts: &o,
				Detail: map[string]interface{}{"panic": res.Panic, "timeout": res.TimedOut}})
			continue
		}
		if res.Err != nil {
			*rejected++
			if *rejected == 1 {
				rejectedExample.src, rejectedExample.o, rejectedExample.err = src, o, res.Err.Error()
			}
			if *rejected <= 3 {
				fmt.Printf("note: generated program rejected: %v\n%s\n", res.Err, src)
			}
			continue
		}
		oc := o
		*cases = append(*cases, &RefCase{ID: fmt.Sprintf("%s.o%v", id, b2i(opt)), Prog: p, Src: src, Opts: oc, Out: res.Out})
	}
}

// rejectedExample is the first well-formed program the compiler rejected in this run.
var rejectedExample struct {
	src string
	o   Opts
	err string
}

func b2i(b bool) int {
	if b {
		return 1
	}
	return 0
}

func checkC01(c *Ctx) {
	n := 250
	cfg := GenCfg{MaxDepth: 3, MaxStmts: 3, MaxLeaves: 2, Auto: false, Switches: true, Gotos: true, NScripts: 2}
	if !c.Quick() {
		n = 6000
		cfg.MaxDepth = 4
	}
	r := NewRand(c.Seed*7919 + 1)
	var cases []*RefCase
	rejected := 0
	base := Opts{AutoVar: genAutoVar()}
	for i := 0; i < n; i++ {
		p := GenProg(r, cfg, fmt.Sprintf("%d_", i))
		st := Style{R: r, Parens: r.Chance(1, 3), Layout: r.Intn(3), EmptyParen: true}
		src := RenderProg(p, st)
		compileBoth(c, fmt.Sprintf("r%d", i), p, src, base, &cases, &rejected)
		if i < 2 {
			c.Sample(map[string]interface{}{"source": src})
		}
	}
	// the exhaustive small-program family enumerated by TLC from GenCtl.tla
	level, nestEvery := 2, 16
	if !c.Quick() {
		level, nestEvery = 3, 1
	}
	outs := []string{"one.ndjson", "nest.ndjson"}
	if level >= 3 {
		outs = append(outs, "pair.ndjson")
	}
	fam, ok := cachedGenModule(c, "GenCtl", map[string]int{"Level": level}, outs...)
	if !ok {
		return
	}
	var famProgs []*Prog
	famProgs = append(famProgs, ctlPrograms(c, fam["one.ndjson"], "o", 1, 0)...)
	famProgs = append(famProgs, ctlPrograms(c, fam["nest.ndjson"], "n", nestEvery, c.Seed)...)
	if level >= 3 {
		famProgs = append(famProgs, ctlPrograms(c, fam["pair.ndjson"], "p", 3, c.Seed)...)
	}
	for i, p := range famProgs {
		src := RenderProg(p, Style{R: r, Layout: 0})
		compileBoth(c, p.Scripts[0].Name, p, src, base, &cases, &rejected)
		if i == 700 {
			c.Sample(map[string]interface{}{"family": "GenCtl", "source": src})
		}
	}
	// programs that are large in one dimension
	for _, p := range bigPrograms() {
		compileBoth(c, p.Scripts[0].Name, p, RenderProg(p, Style{R: r}), base, &cases, &rejected)
	}
	// whole files whose commands and AutoVar conditions carry inline text / moves()
	nf := 60
	if !c.Quick() {
		nf = 1500
	}
	fileRefineCases(c, r, nf, FileCfg{MaxTops: 3, Inline: true, AutoInline: true, MapScripts: true, Formats: true,
		Kinds: []string{"script", "script", "script", "mapscripts", "text", "movement"},
		Ctl:   GenCfg{MaxDepth: 3, MaxStmts: 3, MaxLeaves: 3, Switches: true, Gotos: true}}, "fd", &cases, &rejected)
	// the repository's own test inputs, in emitter-only mode (the parser's AST is the source side)
	cc, acc, skip := corpusCases(c)
	cases = append(cases, cc...)
	c.Cov("corpus_literals_accepted", int64(acc))
	c.Cov("corpus_literals_outside_domain", int64(skip))
	c.Cov("corpus_cases", int64(len(cc)))
	c.Cov("genctl_programs", int64(len(famProgs)))
	c.CovSet("genctl_one_exhaustive", len(fam["one.ndjson"]))
	st := RunRefine(c, cases, 6000, "emitted assembly does not behave like the structured source", nil)
	c.Cov("programs", int64(n))
	c.Cov("cases", int64(st.Cases))
	c.Cov("rejected_by_compiler", int64(rejected))
	c.Cov("states", st.States)
	c.Cov("transitions", st.Generated)
	c.Cov("traces_validated_against_impl", int64(st.Cases))
	if st.Cases == 0 {
		c.Fatal("no case could be built")
	}
}
