package main

// ./check selftest : demonstrations that the specifications are bound to the
// recorded artefacts (a corrupted field is rejected at that event / case) and
// that the product's actions and the semantics' branches are exercised
// (TLC -coverage).  Not a property check; exit 0 iff every demonstration
// behaves as expected.

import (
	"fmt"
	"os"
	"regexp"
	"strings"
	"time"
)

func init() {
	register("selftest", "other", selfTest)
}

func selfTest(c *Ctx) {
	fails := 0
	expect := func(name string, ok bool, detail string) {
		st := "ok  "
		if !ok {
			st = "FAIL"
			fails++
		}
		fmt.Printf("%s %s %s\n", st, name, detail)
	}
	r := NewRand(42)

	// 1. HoistTrace: good trace accepted; a reuse reported as a fresh label, a changed
	//    definition content and a removed definition are each rejected
	src := "script A {\n    msgbox(\"x\")\n    msgbox(\"y\")\n    msgbox(ascii\"x\")\n    applymovement(1, moves(walk_up * 2))\n}\nscript B {\n    msgbox(\"x\")\n    msgbox(\"z\")\n}\n"
	f := &File{Tops: []Top{
		{K: "script", Name: "A", Body: []Stmt{
			{K: "cmd", Toks: []string{"m1", "@inl0"}, Inl: []Inline{{Kind: "text", Parts: []string{"x"}}}},
			{K: "cmd", Toks: []string{"m2", "@inl0"}, Inl: []Inline{{Kind: "text", Parts: []string{"y"}}}},
			{K: "cmd", Toks: []string{"m3", "@inl0"}, Inl: []Inline{{Kind: "text", Parts: []string{"x"}, Type: "ascii"}}},
			{K: "cmd", Toks: []string{"m4", "1", ",", "@inl0"}, Inl: []Inline{{Kind: "moves", Steps: []ListItem{{Name: "walk_up", Mul: "2"}}}}},
		}},
		{K: "script", Name: "B", Body: []Stmt{
			{K: "cmd", Toks: []string{"m5", "@inl0"}, Inl: []Inline{{Kind: "text", Parts: []string{"x"}}}},
			{K: "cmd", Toks: []string{"m6", "@inl0"}, Inl: []Inline{{Kind: "text", Parts: []string{"z"}}}},
		}},
	}}
	src, _ = RenderFile(f, Style{R: r})
	res := Compile(src, Opts{Optimize: true})
	good, err := hoistEvents("good", f, res)
	if err != nil || res.Err != nil {
		c.Fatal("selftest setup failed: %v %v", err, res.Err)
		return
	}
	clone := func(id string) []map[string]interface{} {
		out := make([]map[string]interface{}, len(good))
		for i, e := range good {
			m := map[string]interface{}{}
			for k, v := range e {
				m[k] = v
			}
			if m["ev"] == "file" {
				m["id"] = id
			}
			out[i] = m
		}
		return out
	}
	bad1 := clone("reuse-as-fresh")
	for _, e := range bad1 {
		if e["ev"] == "occur" && e["cmd"] == "m5" {
			e["label"] = "B_Text_0" // the real output shares A_Text_0
		}
	}
	bad2 := clone("content-changed")
	for _, e := range bad2 {
		if e["ev"] == "def" && e["name"] == "A_Text_1" {
			e["content"] = "Y$"
		}
	}
	var bad3 []map[string]interface{}
	for _, e := range clone("def-removed") {
		if e["ev"] == "def" && e["name"] == "B_Text_0" {
			continue
		}
		bad3 = append(bad3, e)
	}
	var all []map[string]interface{}
	all = append(append(append(append(all, good...), bad1...), bad2...), bad3...)
	to := runTraceSpec(c, "HoistTrace", "HoistTrace.cfg", "hoist.ndjson", all)
	_, gr := to.Rejected["good"]
	expect("HoistTrace accepts the recorded trace", !gr, "")
	expect("HoistTrace rejects a reuse reported as a fresh label", strings.Contains(to.Rejected["reuse-as-fresh"], "label"), to.Rejected["reuse-as-fresh"])
	expect("HoistTrace rejects a changed definition content", strings.Contains(to.Rejected["content-changed"], "def"), to.Rejected["content-changed"])
	expect("HoistTrace rejects a removed definition", strings.Contains(to.Rejected["def-removed"], "missing"), to.Rejected["def-removed"])

	// 2. LexTrace: one start column off by one
	lexIdx := func(text string) int {
		for i, l := range lexReps {
			if l.text() == text {
				return i
			}
		}
		return 0
	}
	pick := []int{lexIdx("abc"), lexIdx(`"x y"`), lexIdx("7")}
	_, le, _ := lexInput("lex-good", pick, []int{0, 1, 3, 0})
	_, lb, _ := lexInput("lex-bad", pick, []int{0, 1, 3, 0})
	for _, e := range lb {
		if e["ev"] == "tok" && e["lit"] == "7" {
			o := e["obs"].(map[string]interface{})
			o["sb"] = o["sb"].(int) + 1
		}
	}
	lt := runTraceSpec(c, "LexTrace", "LexTrace.cfg", "lex.ndjson", append(le, lb...))
	_, lg := lt.Rejected["lex-good"]
	expect("LexTrace accepts the recorded tokens", !lg, "")
	expect("LexTrace rejects a start column off by one", lt.Rejected["lex-bad"] != "", lt.Rejected["lex-bad"])

	// 3. Session: one digest changed
	sess := []map[string]interface{}{
		{"sched": "fresh-process", "key": "k1", "digest": "aa"}, {"sched": "s1", "key": "k1", "digest": "aa"},
		{"sched": "s2", "key": "k2", "digest": "bb"}, {"sched": "s3-corrupted", "key": "k1", "digest": "ab"},
	}
	st := runTraceSpec(c, "Session", "Session.cfg", "session.ndjson", sess)
	expect("Session rejects a second result for the same key", st.Rejected["s3-corrupted"] != "" && len(st.Rejected) == 1, st.Rejected["s3-corrupted"])

	// 4. Refine: the real output, and the same output with one branch polarity flipped
	p := &Prog{Scripts: []Script{{Name: "S", Body: []Stmt{
		{K: "while", HasCond: true, Cond: &Expr{K: "leaf", Typ: "flag", Opnd: "FLAG_A", Form: "bare"}, Body: []Stmt{
			{K: "if", Arms: []Arm{{Cond: &Expr{K: "leaf", Typ: "var", Opnd: "VAR_X", Form: "cmp", Op: ">=", Val: "2"}, Body: []Stmt{{K: "break"}}}}},
			{K: "cmd", Toks: []string{"step"}}}},
		{K: "cmd", Toks: []string{"after"}}}}}}
	psrc := RenderProg(p, Style{})
	pres := Compile(psrc, Opts{Optimize: true})
	flipped := strings.Replace(pres.Out, "goto_if_ge", "goto_if_gt", 1)
	cases := []*RefCase{{ID: "real", Prog: p, Src: psrc, Out: pres.Out}, {ID: "flipped", Prog: p, Src: psrc, Out: flipped}}
	rs := &RefineStats{Diverged: map[string]string{}}
	runRefineBatch(c, "selftest.refine", cases, rs, 5*time.Minute)
	_, d1 := rs.Diverged["real"]
	_, d2 := rs.Diverged["flipped"]
	expect("Refine accepts the real output", !d1, "")
	expect("Refine rejects the output with goto_if_ge changed to goto_if_gt", d2, fmt.Sprint(rs.Diverged))

	// 4b. Refine with inline data: the real output is accepted; the same output with the hoisted
	//     text changed, with the movement one step short, and with the two labels swapped at the
	//     call sites are each rejected
	dp := &Prog{Scripts: []Script{{Name: "D", Body: []Stmt{
		{K: "if", Arms: []Arm{{Cond: &Expr{K: "leaf", Typ: "flag", Opnd: "FLAG_A", Form: "bare"}, Body: []Stmt{
			{K: "cmd", Toks: []string{"msgbox", "@inl0", ",", "MSGBOX_DEFAULT"}, Inl: []Inline{{Kind: "text", Parts: []string{"Hello\\n", "there"}}}}}}}},
		{K: "cmd", Toks: []string{"applymovement", "1", ",", "@inl0"}, Inl: []Inline{{Kind: "moves", Steps: []ListItem{{Name: "walk_up", Mul: "3"}, {Name: "face_down"}}}}},
		{K: "cmd", Toks: []string{"say", "@inl0"}, Inl: []Inline{{Kind: "text", Parts: []string{"bye"}, Type: "ascii"}}}}}}}
	dsrc := RenderProg(dp, Style{})
	dres := Compile(dsrc, Opts{Optimize: true})
	if dres.Err != nil {
		c.Fatal("selftest setup failed: %v", dres.Err)
		return
	}
	dcases := []*RefCase{{ID: "data-real", Prog: dp, Src: dsrc, Out: dres.Out},
		{ID: "data-text-changed", Prog: dp, Src: dsrc, Out: strings.Replace(dres.Out, "there$", "their$", 1)},
		{ID: "data-step-lost", Prog: dp, Src: dsrc, Out: strings.Replace(dres.Out, "\twalk_up\n", "", 1)},
		{ID: "data-directive", Prog: dp, Src: dsrc, Out: strings.Replace(dres.Out, ".ascii", ".string", 1)},
		{ID: "data-swapped", Prog: dp, Src: dsrc, Out: strings.Replace(strings.Replace(dres.Out, "msgbox D_Text_0", "msgbox D_Text_1", 1), "say D_Text_1", "say D_Text_0", 1)}}
	ds := &RefineStats{Diverged: map[string]string{}}
	runRefineBatch(c, "selftest.data", dcases, ds, 5*time.Minute)
	_, dd := ds.Diverged["data-real"]
	expect("Refine accepts the real output with inline text and moves()", !dd, "")
	for _, id := range []string{"data-text-changed", "data-step-lost", "data-directive", "data-swapped"} {
		_, bad := ds.Diverged[id]
		expect("Refine rejects "+id, bad, "")
	}

	// 5. coverage of the product on a mixed batch: every action of Refine and every arm of the
	//    semantics' case analyses is taken
	cfg := GenCfg{MaxDepth: 3, MaxStmts: 3, MaxLeaves: 3, Auto: true, Switches: true, Gotos: true, NScripts: 2}
	var batch []*RefCase
	rejected := 0
	for i := 0; i < 150; i++ {
		pr := GenProg(r, cfg, fmt.Sprintf("%d_", i))
		s := RenderProg(pr, Style{R: r, Layout: 0})
		compileBoth(c, fmt.Sprintf("cov%d", i), pr, s, Opts{AutoVar: genAutoVar()}, &batch, &rejected)
	}
	var nd NDJSON
	for _, rc := range batch {
		nd.Add(buildRefineRecord(rc))
	}
	cov, err := RunTLC("selftest.cov", TLCJob{Module: "Refine", Cfg: "Refine.cfg", Data: map[string][]byte{"cases.ndjson": nd.Bytes()},
		Workers: 8, Timeout: 15 * time.Minute, Args: []string{"-coverage", "1"}, HeapGB: 12})
	if err != nil || !cov.Finished {
		expect("coverage run completes", false, tail(cov.Output, 500))
	} else {
		if os.Getenv("VERIF_DEBUG") != "" {
			os.WriteFile("/tmp/selftest.cov.txt", []byte(cov.Output), 0o644)
		}
		reAct := regexp.MustCompile(`<(\w+) line \d+, col \d+ to line \d+, col \d+ of module Refine[^>]*>: (\d+):(\d+)`)
		seen := map[string]string{}
		for _, m := range reAct.FindAllStringSubmatch(cov.Output, -1) {
			seen[m[1]] = m[3]
		}
		for _, a := range []string{"SrcRead", "VMRead", "Sync"} {
			expect("coverage: action "+a+" taken", seen[a] != "" && seen[a] != "0", seen[a]+" states")
		}
		zero := 0
		reZero := regexp.MustCompile(`(?m)^\s*\|*line (\d+), col \d+ to line \d+, col \d+ of module (PoryLang|ScriptVM): 0\s*$`)
		var zl []string
		for _, m := range reZero.FindAllStringSubmatch(cov.Output, -1) {
			zero++
			if len(zl) < 12 {
				zl = append(zl, m[2]+":"+m[1])
			}
		}
		fmt.Printf("info coverage: %d expressions of PoryLang/ScriptVM never evaluated in this batch %v\n", zero, zl)
	}
	c.CovSet("explanation", fmt.Sprintf("binding demonstrations and coverage run; %d failed", fails))
	c.Cov("evaluations", 14)
	c.Cov("distinct_nontrivial", 14)
	if fails > 0 {
		c.Fatal("%d selftest demonstrations failed", fails)
	}
}
