package main

import (
	"fmt"
	"strings"
)

func init() {
	register("C13", "translation_validation", checkC13)
}

type constDef struct {
	Name string   `json:"name"`
	Toks []string `json:"toks"`
}
type constUse struct {
	Name string   `json:"name"`
	Toks []string `json:"toks"`
}

// c13Builder writes the same program twice: P with constants, R written out.
type c13Builder struct {
	r    *Rand
	defs []constDef
	exp  map[string][]string // the builder's own expansion (checked by TLC against Constants!Expand)
	uses []constUse
	live map[string]bool // constants defined so far (textually before the current point)
}

// val returns the token texts for a site in P and in R: either a literal or a
// use of a live constant.  mode restricts which constants can be written out
// at this site: "free" (any tokens), "noparen" (the site's own syntax ends at
// the first ')'), "ident" (a single identifier token: mart items).
func (b *c13Builder) val(mode string, lits ...string) (p, r string) {
	var liveNames []string
	for _, d := range b.defs {
		if !b.live[d.Name] {
			continue
		}
		e := b.exp[d.Name]
		okk := true
		switch mode {
		case "noparen":
			for _, t := range e {
				if t == "(" || t == ")" {
					okk = false
				}
			}
		case "ident":
			okk = len(e) == 1 && !strings.ContainsAny(e[0][:1], "0123456789-(")
		}
		if okk {
			liveNames = append(liveNames, d.Name)
		}
	}
	if len(liveNames) > 0 && b.r.Chance(2, 3) {
		k := b.r.Pick(liveNames)
		b.uses = append(b.uses, constUse{Name: k, Toks: b.exp[k]})
		p, r = k, strings.Join(b.exp[k], " ")
		if mode != "ident" && b.r.Chance(1, 4) {
			// inside a larger token sequence
			if mode == "free" {
				p, r = "( "+p+" ) + 1", "( "+r+" ) + 1"
			} else {
				p, r = p+" + 1", r+" + 1"
			}
		}
		return
	}
	l := b.r.Pick(lits)
	return l, l
}

func (b *c13Builder) define(name string, toks []string) {
	b.defs = append(b.defs, constDef{name, toks})
	var e []string
	for _, t := range toks {
		if x, ok := b.exp[t]; ok && b.live[t] {
			e = append(e, x...)
		} else {
			e = append(e, t)
		}
	}
	b.exp[name] = e
	b.live[name] = true
}

func checkC13(c *Ctx) {
	n := 400
	if !c.Quick() {
		n = 60000
	}
	r := NewRand(c.Seed*5381 + 13)
	var recs []map[string]interface{}
	srcP, srcR, outP, outR := map[string]string{}, map[string]string{}, map[string]string{}, map[string]string{}
	nuses := 0
	for i := 0; i < n; i++ {
		b := &c13Builder{r: r, exp: map[string][]string{}, live: map[string]bool{}}
		var P, R strings.Builder
		both := func(p, rr string) { P.WriteString(p); R.WriteString(rr) }
		same := func(s string) { both(s, s) }
		names := []string{"K_ONE", "K_TWO", "K_THREE", "walk_up", "Lbl", "cmdk"}
		// constant names of every identifier shape: leading underscore, digits inside, multi-byte letters
		switch i % 4 {
		case 1:
			names[0], names[1] = "_K_ONE", "K2_b"
		case 2:
			names[0], names[2] = "KÉ_ONE", "_"
		case 3:
			names[1], names[2] = "__k", "k"
		}
		pool := [][]string{{"1"}, {"5"}, {"0x10"}, {"VAR_TEMP_1"}, {"FLAG_X"}, {"ITEM_POTION"}, {"ITEM_NONE"}, {"1", "+", "2"}, {"(", "VAR_A", "+", "1", ")", "*", "2"}, {"TRAINER_ROXANNE"}}
		switch i % 10 {
		case 7:
			// long names (64 characters and more)
			names[0] = "K_" + strings.Repeat("LONG_", 13)
			names[1] = "K_" + strings.Repeat("x", 62)
		}
		redefine := i%25 == 24
		// a use before any definition is not a use
		same("script Early {\n    early(K_ONE, K_TWO)\n}\n")
		if i%10 == 3 || i%10 == 8 {
			// many constants defined first (the ones used below come 17th, 33rd, 65th or later)
			for k := 0; k < []int{16, 17, 32, 40, 64, 70}[(i/10)%6]; k++ {
				name := fmt.Sprintf("FILL_%d", k)
				toks := []string{fmt.Sprint(1000 + k)}
				P.WriteString("const " + name + " = " + toks[0] + "\n")
				b.define(name, toks)
			}
		}
		ndefs := 1 + r.Intn(3)
		defineOne := func(k int) {
			name := names[k]
			if k >= 3 {
				name = names[3+r.Intn(3)] // a constant named like a step / label / command
			}
			if b.live[name] {
				return
			}
			toks := append([]string{}, pool[r.Intn(len(pool))]...)
			if len(b.defs) > 0 && r.Chance(1, 2) {
				// defined from an earlier constant
				prev := b.defs[r.Intn(len(b.defs))].Name
				switch r.Intn(3) {
				case 0:
					toks = []string{prev}
				case 1:
					toks = []string{prev, "+", "1"}
				default:
					toks = []string{"(", prev, ")", "*", prev}
				}
			}
			P.WriteString("const " + name + " = " + strings.Join(toks, " ") + "\n")
			b.define(name, toks)
		}
		for k := 0; k < ndefs; k++ {
			defineOne(k)
		}
		if r.Chance(1, 3) {
			defineOne(3)
		}
		// the script: every documented site
		same("script Main {\n")
		p1, r1 := b.val("free", "A", "7")
		p2, r2 := b.val("free", "B")
		both("    docmd("+p1+", "+p2+", last)\n", "    docmd("+r1+", "+r2+", last)\n")
		p1, r1 = b.val("noparen", "FLAG_A")
		both("    if (flag("+p1+")) {\n        yes1\n    }\n", "    if (flag("+r1+")) {\n        yes1\n    }\n")
		p1, r1 = b.val("noparen", "VAR_Q")
		p2, r2 = b.val("noparen", "3", "VAR_W")
		both("    if (var("+p1+") >= "+p2+") {\n        yes2\n    }\n", "    if (var("+r1+") >= "+r2+") {\n        yes2\n    }\n")
		p1, r1 = b.val("free", "4")
		both("    while (var(VAR_Z) != value("+p1+")) {\n        yes3\n    }\n", "    while (var(VAR_Z) != value("+r1+")) {\n        yes3\n    }\n")
		p1, r1 = b.val("noparen", "TRAINER_1")
		both("    if (!defeated("+p1+") || defeated("+p1+") == TRUE) {\n        yes4\n    }\n", "    if (!defeated("+r1+") || defeated("+r1+") == TRUE) {\n        yes4\n    }\n")
		p1, r1 = b.val("noparen", "VAR_S")
		p2, r2 = b.val("free", "11")
		p3, r3 := b.val("free", "12")
		dupCase := false
		if i%8 == 5 && p2 != r2 {
			// the same value spelled twice, once through a constant: both programs are ill-formed
			p3, r3, dupCase = r2, r2, true
		} else if r2 == r3 {
			p3, r3 = "13", "13"
		}
		both("    switch (var("+p1+")) {\n        case "+p2+": c1\n        case "+p3+":\n        default: c3\n    }\n",
			"    switch (var("+r1+")) {\n        case "+r2+": c1\n        case "+r3+":\n        default: c3\n    }\n")
		// non-sites: a label, a command name, goto target (an argument: a site)
		same("    Lbl:\n    cmdk(1)\n    walk_up\n")
		p1, r1 = b.val("free", "Elsewhere")
		both("    goto("+p1+")\n}\n", "    goto("+r1+")\n}\n")
		same("movement Mov {\n    walk_up * 2\n    walk_up\n    Lbl\n}\n")
		same("script Inl {\n    applymovement(1, moves(walk_up cmdk Lbl))\n    msgbox(\"K_ONE walk_up\")\n}\n")
		same("text Txt {\n    \"K_ONE K_TWO Lbl\"\n}\n")
		p1, r1 = b.val("ident", "ITEM_A")
		p2, r2 = b.val("ident", "ITEM_B")
		both("mart Shop {\n    "+p1+"\n    "+p2+"\n    ITEM_C\n}\n", "mart Shop {\n    "+r1+"\n    "+r2+"\n    ITEM_C\n}\n")
		p1, r1 = b.val("free", "VAR_T")
		p2, r2 = b.val("free", "2")
		both("mapscripts Maps {\n    MAP_SCRIPT_ON_LOAD: K_ONE\n    MAP_SCRIPT_ON_FRAME_TABLE [\n        "+p1+", "+p2+": Target_A\n        VAR_U, "+p2+" {\n            inl\n        }\n    ]\n}\n",
			"mapscripts Maps {\n    MAP_SCRIPT_ON_LOAD: K_ONE\n    MAP_SCRIPT_ON_FRAME_TABLE [\n        "+r1+", "+r2+": Target_A\n        VAR_U, "+r2+" {\n            inl\n        }\n    ]\n}\n")
		// mart items are single tokens: undo multi-token wrapping there is not needed (the parser takes IDENT tokens only)
		if redefine && len(b.defs) > 0 {
			d := b.defs[r.Intn(len(b.defs))]
			P.WriteString("const " + d.Name + " = 99\n")
			b.defs = append(b.defs, constDef{d.Name, []string{"99"}})
		}
		same("script Tail {\n    tail\n}\n")
		id := fmt.Sprintf("k%d", i)
		o := Opts{Optimize: i%2 == 0}
		resP, resR := Compile(P.String(), o), Compile(R.String(), o)
		srcP[id], srcR[id] = P.String(), R.String()
		if resP.Panic != "" || resP.TimedOut || resR.Panic != "" {
			c.Violate(Violation{What: "compiler panicked or hung", Source: P.String(), Opts: &o})
			continue
		}
		outP[id], outR[id] = resP.Out+errText(resP.Err), resR.Out+errText(resR.Err)
		nuses += len(b.uses)
		recs = append(recs, map[string]interface{}{"id": id, "defs": b.defs, "uses": b.uses,
			"out1": outLines(resP.Out), "out2": outLines(resR.Out), "err1": resP.Err != nil, "err2": resR.Err != nil, "dupcase": dupCase})
		if i < 2 {
			c.Sample(map[string]interface{}{"with_constants": P.String(), "written_out": R.String()})
		}
	}
	bad, states, ok := runPairCases(c, "Constants", "constcases.ndjson", recs)
	if !ok {
		return
	}
	for id := range bad {
		c.Violate(Violation{What: "program with constants does not compile to the output of the program with the values written out (or a redefinition is accepted)",
			Source: srcP[id], Detail: map[string]interface{}{"written_out_source": srcR[id], "output": outP[id], "written_out_output": outR[id]}})
	}
	c.Cov("programs", int64(len(recs)))
	c.Cov("disagreements_checked", int64(len(bad)))
	c.Cov("constant_uses", int64(nuses))
	c.Cov("states", states)
}

func errText(err error) string {
	if err == nil {
		return ""
	}
	return "ERROR: " + err.Error()
}
