package main

import (
	"fmt"
	"strings"
)

func init() {
	register("C10", "exploration", checkC10)
}

func checkC10(c *Ctx) {
	fam, ok := cachedGenModule(c, "GenArgs", map[string]int{}, "args.ndjson")
	if !ok {
		return
	}
	r := NewRand(c.Seed*7151 + 10)
	var args [][]string
	for _, ln := range fam["args.ndjson"] {
		var a []string
		if jsonUnmarshal([]byte(ln), &a) != nil {
			c.Fatal("bad GenArgs line")
			return
		}
		for i := range a {
			a[i] = strings.ReplaceAll(a[i], "nE", "né")
			// decimal digits outside ASCII: part of identifiers and numbers like any other digit
			a[i] = strings.ReplaceAll(a[i], "xD3", "F_\u0663")
			a[i] = strings.ReplaceAll(a[i], "D12", "\uff11\uff12")
		}
		args = append(args, a)
	}
	// every member of the family is used at least once as an argument (at a
	// rotating position); the thorough tier repeats with other neighbours
	rounds := 1
	if !c.Quick() {
		rounds = 40
	}
	names := []string{"setvar", "cmd", "dothing", "lock", "foo_bar", "é_cmd", "x", "setscope", "warp", "end2"}
	var recs []map[string]interface{}
	srcOf, outOf := map[string]string{}, map[string]string{}
	next := 0
	nscripts := 0
	total := len(args) * rounds
	for next < total {
		f := &File{}
		type sc struct {
			name  string
			stmts []map[string]interface{}
		}
		var scripts []sc
		for s := 0; s < 3 && next < total; s++ {
			nscripts++
			name := fmt.Sprintf("S%d", nscripts)
			var body []Stmt
			var model []map[string]interface{}
			nst := 3 + r.Intn(4)
			for k := 0; k < nst && next < total; k++ {
				switch r.Intn(8) {
				case 0:
					// a label, with or without scope syntax
					ln := fmt.Sprintf("L%d_%d", nscripts, k)
					g := r.Chance(1, 2)
					body = append(body, Stmt{K: "label", Name: ln, G: g})
					model = append(model, map[string]interface{}{"k": "label", "name": ln, "g": g, "toks": []string{}})
				case 1:
					// commands that look like labels with scope syntax
					cmdn := r.Pick(names)
					kw := r.Pick([]string{"local", "global"})
					toks := []string{cmdn, kw}
					if r.Chance(1, 2) {
						toks = append(toks, ",", "1")
					}
					body = append(body, Stmt{K: "cmd", Toks: toks})
					model = append(model, map[string]interface{}{"k": "cmd", "toks": toks, "name": "", "g": false})
				case 2:
					cmdn := r.Pick(names)
					body = append(body, Stmt{K: "cmd", Toks: []string{cmdn}})
					model = append(model, map[string]interface{}{"k": "cmd", "toks": []string{cmdn}, "name": "", "g": false})
				default:
					cmdn := r.Pick(names)
					toks := []string{cmdn}
					na := 1 + r.Intn(3)
					pos := r.Intn(na)
					for a := 0; a < na; a++ {
						if a > 0 {
							toks = append(toks, ",")
						}
						if a == pos {
							toks = append(toks, args[next%len(args)]...)
							next++
						} else {
							toks = append(toks, args[r.Intn(len(args))]...)
						}
					}
					body = append(body, Stmt{K: "cmd", Toks: toks})
					model = append(model, map[string]interface{}{"k": "cmd", "toks": toks, "name": "", "g": false})
				}
			}
			f.Tops = append(f.Tops, Top{K: "script", Name: name, Body: body})
			scripts = append(scripts, sc{name, model})
		}
		src, _ := RenderFile(f, Style{R: r, Layout: (next / 7) % 3, EmptyParen: true})
		o := Opts{Optimize: next%2 == 0}
		res := Compile(src, o)
		fid := fmt.Sprintf("f%d", nscripts)
		srcOf[fid] = src
		if res.Panic != "" || res.TimedOut {
			c.Violate(Violation{What: "compiler panicked or hung", Source: src, Opts: &o, Detail: map[string]interface{}{"panic": res.Panic}})
			continue
		}
		outOf[fid] = res.Out + errText(res.Err)
		var pa *ParsedAsm
		if res.Err == nil {
			pa = ParseAsm(res.Out)
		}
		for _, s := range scripts {
			rec := map[string]interface{}{"id": fid + "#" + s.name, "stmts": s.stmts, "err": res.Err != nil, "found": false, "lines": []string{}}
			if pa != nil {
				lines := []map[string]interface{}{}
				for i, ln := range pa.Lines {
					if ln["k"] == "label" && ln["name"] == s.name {
						rec["found"] = true
						for j := i + 1; j < len(pa.Lines); j++ {
							x := pa.Lines[j]
							if x["k"] == "label" && strings.HasPrefix(x["name"].(string), "S") {
								break // the next script
							}
							switch x["k"] {
							case "label":
								lines = append(lines, map[string]interface{}{"k": "label", "name": x["name"], "g": x["g"]})
							case "ins":
								lines = append(lines, map[string]interface{}{"k": "cmd", "toks": x["toks"]})
							default:
								lines = append(lines, map[string]interface{}{"k": "data", "toks": []string{x["dir"].(string)}})
							}
						}
						break
					}
				}
				rec["lines"] = lines
			}
			recs = append(recs, rec)
		}
		if len(recs) <= 3 {
			c.Sample(map[string]interface{}{"source": src, "output": res.Out})
		}
	}
	bad, states, ok := runPairCases(c, "Commands", "cmdcases.ndjson", recs)
	if !ok {
		return
	}
	seen := map[string]bool{}
	for id := range bad {
		fid := id[:strings.Index(id, "#")]
		if seen[fid] {
			continue
		}
		seen[fid] = true
		c.Violate(Violation{What: "a command did not pass through verbatim, in order, exactly once (" + id + ")", Source: srcOf[fid],
			Detail: map[string]interface{}{"output": outOf[fid]}})
	}
	// "inline text / moves() replaced by their label", wherever the command stands: whole files
	// with such commands in every construct (if/elif/else, loops, switch cases and default, inline
	// map scripts, AutoVar conditions), explored by the product with the data resolved
	{
		var cases []*RefCase
		rejected := 0
		nf := 80
		if !c.Quick() {
			nf = 2500
		}
		fr := NewRand(c.Seed*6007 + 10)
		fileRefineCases(c, fr, nf, FileCfg{MaxTops: 3, Inline: true, AutoInline: true, MapScripts: true,
			Kinds: []string{"script", "script", "mapscripts", "text"},
			Ctl:   GenCfg{MaxDepth: 2, MaxStmts: 3, MaxLeaves: 3, Switches: true}}, "cd", &cases, &rejected)
		st := RunRefine(c, cases, 6000, "a command (with inline text / moves() arguments) is not passed through exactly once, in order, with its data", nil)
		states += st.States
		c.Cov("product_cases", int64(st.Cases))
		c.Cov("rejected_by_compiler", int64(rejected))
	}
	c.Cov("evaluations", int64(len(recs)))
	c.Cov("distinct_nontrivial", int64(len(recs)))
	c.CovSet("rule", "every argument of the TLC-enumerated family GenArgs.tla (1-2 token arguments and parenthesised forms over identifiers incl. multi-byte, decimal/hex/negative numbers, operators, keywords) is used at least once, at a rotating position of a 1-3 argument command, in straight-line scripts mixed with labels (with and without scope syntax) and commands whose only argument is local/global; a case is one script, distinct by construction")
	c.Cov("states", states)
	c.CovSet("argument_family_size", len(args))
}
