package main

// Running the real compiler packages of /repo.

import (
	"encoding/json"
	"fmt"
	"os"
	"os/exec"
	"path/filepath"
	"runtime"
	"runtime/debug"
	"strings"
	"time"

	"github.com/huderlem/poryscript/ast"
	"github.com/huderlem/poryscript/emitter"
	"github.com/huderlem/poryscript/lexer"
	"github.com/huderlem/poryscript/parser"
)

// Opts are the compile options (those of the CLI).
type Opts struct {
	Optimize    bool              `json:"optimize"`
	LineMarkers bool              `json:"lm"`
	InputPath   string            `json:"input_path"`
	Switches    map[string]string `json:"switches,omitempty"`
	FontConfig  string            `json:"font_config,omitempty"`
	FontID      string            `json:"font_id,omitempty"`
	MaxLine     int               `json:"max_line,omitempty"`
	AutoVar     map[string]AutoV  `json:"autovar,omitempty"`
	Lint        bool              `json:"lint,omitempty"`
}

// AutoV mirrors one entry of the command config.
type AutoV struct {
	VarName string `json:"var_name,omitempty"`
	ArgPos  *int   `json:"var_name_arg_position,omitempty"`
}

// Result is what one compilation returned.
type Result struct {
	Out      string
	Err      error
	PErr     *parser.ParseError // non-nil when Err is a ParseError
	Panic    string             // non-empty if the compiler panicked
	TimedOut bool
	Dur      time.Duration
}

func (o Opts) commandConfig() parser.CommandConfig {
	cc := parser.CommandConfig{AutoVarCommands: map[string]parser.AutoVarCommand{}}
	for k, v := range o.AutoVar {
		cc.AutoVarCommands[k] = parser.AutoVarCommand{VarName: v.VarName, VarNameArgPosition: v.ArgPos}
	}
	return cc
}

func compileOnce(src string, o Opts) (res Result) {
	defer func() {
		if r := recover(); r != nil {
			res.Panic = fmt.Sprintf("%v\n%s", r, debug.Stack())
		}
	}()
	var p *parser.Parser
	if o.Lint {
		p = parser.NewLintParser(lexer.New(src), o.commandConfig())
	} else {
		p = parser.New(lexer.New(src), o.commandConfig(), o.FontConfig, o.FontID, o.MaxLine, o.Switches)
	}
	prog, err := p.ParseProgram()
	if err != nil {
		res.Err = err
		if pe, ok := err.(parser.ParseError); ok {
			res.PErr = &pe
		}
		return
	}
	if o.Lint {
		return
	}
	out, err := emitter.New(prog, o.Optimize, o.LineMarkers, o.InputPath).Emit()
	res.Out = out
	res.Err = err
	if err != nil {
		if pe, ok := err.(parser.ParseError); ok {
			res.PErr = &pe
		}
	}
	return
}

// Compile runs the real compiler in-process with a wall-clock limit.
func Compile(src string, o Opts) Result {
	return CompileLimit(src, o, 10*time.Second)
}

// CompileLimit is Compile with an explicit limit.  A compilation that does not
// finish is abandoned (its goroutine leaks; callers treat a timeout as fatal for
// the run or count it as an outcome).
func CompileLimit(src string, o Opts, limit time.Duration) Result {
	ch := make(chan Result, 1)
	t0 := time.Now()
	go func() { ch <- compileOnce(src, o) }()
	select {
	case r := <-ch:
		r.Dur = time.Since(t0)
		return r
	case <-time.After(limit):
	}
	// No answer within the limit.  The goroutine cannot be stopped, and a compilation that loops
	// while allocating would take the whole harness down with it (seen: 200 MB/s), so the question
	// is settled here: a grace period of twice the limit tells "slow under load" (the result then
	// still counts as timed out) from "hung", and a hung compilation ends the run at once with a
	// violation of the property being checked.
	var m0 runtime.MemStats
	runtime.ReadMemStats(&m0)
	deadline := time.Now().Add(2 * limit)
	for time.Now().Before(deadline) {
		select {
		case <-ch:
			return Result{TimedOut: true, Dur: time.Since(t0)}
		case <-time.After(100 * time.Millisecond):
		}
		var m runtime.MemStats
		runtime.ReadMemStats(&m)
		if m.HeapAlloc > m0.HeapAlloc+(3<<30) {
			break
		}
	}
	if curCtx != nil {
		oc := o
		curCtx.abortNow(Violation{What: fmt.Sprintf("the compiler did not answer within %v (it hangs, or grows without bound)", 3*limit), Source: src, Opts: &oc})
	}
	return Result{TimedOut: true, Dur: time.Since(t0)}
}

// RunBinary runs the real poryscript binary (built from /repo by ./check).
func RunBinary(bin string, src string, args []string, limit time.Duration) (stdout, stderr string, exit int, timedOut bool) {
	cmd := exec.Command(bin, args...)
	cmd.Stdin = strings.NewReader(src)
	var so, se strings.Builder
	cmd.Stdout = &so
	cmd.Stderr = &se
	if err := cmd.Start(); err != nil {
		return "", err.Error(), -1, false
	}
	done := make(chan error, 1)
	go func() { done <- cmd.Wait() }()
	select {
	case err := <-done:
		exit = 0
		if err != nil {
			if ee, ok := err.(*exec.ExitError); ok {
				exit = ee.ExitCode()
			} else {
				exit = -1
			}
		}
	case <-time.After(limit):
		cmd.Process.Kill()
		<-done
		timedOut = true
	}
	return so.String(), se.String(), exit, timedOut
}

// writeAutoVarConfig writes a command config JSON for the binary.
func writeAutoVarConfig(dir string, av map[string]AutoV) (string, error) {
	type cc struct {
		A map[string]AutoV `json:"autovar_commands"`
	}
	b, _ := json.Marshal(cc{A: av})
	p := filepath.Join(dir, "cc.json")
	return p, os.WriteFile(p, b, 0o644)
}

// emitOnly runs the real emitter on an AST produced by the real parser.
func emitOnly(prog *ast.Program, optimize bool) (res Result) {
	defer func() {
		if r := recover(); r != nil {
			res.Panic = fmt.Sprintf("%v\n%s", r, debug.Stack())
		}
	}()
	out, err := emitter.New(prog, optimize, false, "").Emit()
	res.Out, res.Err = out, err
	return
}
