package main

// ./check lexmodel : spec/LexModel.tla (the lexer as a function from character sequences to
// tokens) against the real lexer on EVERY string of length <= 3 (4) over an 18-symbol alphabet
// (spec/GenChars.tla, spec/LexAll.tla).  Implementation-level, not a property check.

import (
	"fmt"
	"strings"
	"time"

	"github.com/huderlem/poryscript/lexer"
	"github.com/huderlem/poryscript/token"
)

func init() {
	register("lexmodel", "other", checkLexModel)
}

var lexAlphabet = []string{"d", "o", "a", "é", "0", "x", "1", "-", "\"", "`", "#", "/", "=", "&", "!", " ", "\n", "("}

func checkLexModel(c *Ctx) {
	maxLen := 4
	fam, ok := cachedGenModule(c, "GenChars", map[string]int{"MaxLen": maxLen, "NSym": len(lexAlphabet)}, "chars.ndjson")
	if !ok {
		return
	}
	var nd NDJSON
	srcOf := map[string]string{}
	n, inBatch, drift := 0, 0, 0
	var states int64
	failed := false
	flushBatch := func() {
		if inBatch == 0 || failed {
			return
		}
		res, err := RunTLC("lexall", TLCJob{Module: "LexAll", Cfg: "LexAll.cfg", Data: map[string][]byte{"lexall.ndjson": nd.Bytes()},
			Workers: c.Workers, Timeout: 30 * time.Minute, HeapGB: 10})
		if err != nil || !res.Clean() {
			c.Fatal("LexAll run failed: %v\n%s", err, tail(res.Output, 3000))
			failed = true
			return
		}
		for _, m := range reCaseFlag.FindAllStringSubmatch(res.Output, -1) {
			drift++
			if drift <= 8 {
				fmt.Printf("DRIFT lexer model: %s %q  model: %s\n", m[3], srcOf[m[3]], strings.Join(strings.Fields(m[4]), " "))
			}
		}
		states += res.Distinct
		nd = NDJSON{}
		inBatch = 0
	}
	add := func(id string, chars []string) {
		src := strings.Join(chars, "")
		// character offset of the start of every line
		lineStart := []int{0, 0}
		for i, ch := range chars {
			if ch == "\n" {
				lineStart = append(lineStart, i+1)
			}
		}
		off := func(line, col int) int {
			if line >= 1 && line < len(lineStart) {
				return lineStart[line] + col
			}
			return -1
		}
		real := []map[string]interface{}{}
		func() {
			defer func() {
				if r := recover(); r != nil {
					real = append(real, map[string]interface{}{"type": "PANIC", "lit": fmt.Sprint(r), "b": 0, "e": 0})
				}
			}()
			lx := lexer.New(src)
			for k := 0; k < len(chars)+3; k++ {
				t := lx.NextToken()
				real = append(real, map[string]interface{}{"type": string(t.Type), "lit": t.Literal,
					"b": off(t.LineNumber, t.StartUtf8CharIndex), "e": off(t.EndLineNumber, t.EndUtf8CharIndex)})
				if t.Type == token.EOF {
					break
				}
			}
		}()
		srcOf[id] = src
		nd.Add(map[string]interface{}{"id": id, "chars": chars, "real": real})
		n++
		inBatch++
		if inBatch >= 120000 {
			flushBatch()
		}
	}
	for i, ln := range fam["chars.ndjson"] {
		var w []int
		if jsonUnmarshal([]byte(ln), &w) != nil {
			c.Fatal("bad GenChars line")
			return
		}
		chars := make([]string, len(w))
		for k, x := range w {
			chars[k] = lexAlphabet[x-1]
		}
		add(fmt.Sprintf("s%d", i), chars)
	}
	if !c.Quick() {
		// length 5 over a smaller alphabet
		small := []string{"d", "é", "0", "x", "1", "-", "\"", "`", "#", "/", "=", "\n"}
		if fam5, ok := cachedGenModule(c, "GenChars", map[string]int{"MaxLen": 5, "NSym": len(small)}, "chars.ndjson"); ok {
			for i, ln := range fam5["chars.ndjson"] {
				var w []int
				if jsonUnmarshal([]byte(ln), &w) != nil || len(w) < 5 {
					continue
				}
				chars := make([]string, len(w))
				for k, x := range w {
					chars[k] = small[x-1]
				}
				add(fmt.Sprintf("t%d", i), chars)
			}
		}
	}
	// a few longer hand-written strings (keywords, string types, multi-part strings, hex, comments at the end)
	for i, s := range []string{"do\"a\"", "ascii\"x\" \"y\"", "if(x==0x1f&&!a)", "a\"b\n c\"\n\"d\"", "`r \n `x", "x//c", "x#é", "-1-x--2", "0x 0xg 00x1", "while do doo _do", "a\"b", "`raw", "\"\"\"\"", "\"a\"\"b\" \n\t\"c\""} {
		var chars []string
		for _, r := range s {
			chars = append(chars, string(r))
		}
		add(fmt.Sprintf("h%d", i), chars)
	}
	flushBatch()
	if failed {
		return
	}
	msg := fmt.Sprintf("lexmodel: %d strings (all of length <= %d over %d symbols; thorough: also all of length 5 over 12); token stream differs between model and real lexer: %d", n, maxLen, len(lexAlphabet), drift)
	fmt.Println(msg)
	c.CovSet("explanation", msg)
	c.Cov("evaluations", int64(n))
	c.Cov("distinct_nontrivial", int64(n))
	c.Cov("states", states)
	if drift > 0 {
		c.Fatal("lexer model drift: %d strings", drift)
	}
}
