package main

import "encoding/json"

func jsonMarshal(v interface{}) ([]byte, error)   { return json.Marshal(v) }
func jsonUnmarshal(b []byte, v interface{}) error { return json.Unmarshal(b, v) }
