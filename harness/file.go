package main

// Whole files: top-level statements, inline data, poryswitch nodes; and the
// piece-based pretty printer that knows on which source line every construct
// ends up (needed by C16/C19).

import (
	"fmt"
	"strings"
	"unicode"
	"unicode/utf8"
)

// Inline is an inline text or moves() argument of a command.
type Inline struct {
	Kind   string     `json:"kind"` // text | moves
	Parts  []string   `json:"parts,omitempty"`
	Type   string     `json:"type,omitempty"`   // string type prefix
	Format string     `json:"format,omitempty"` // extra format() parameter text (", 100" ...) ; "" = not format()
	IsFmt  bool       `json:"isfmt,omitempty"`
	Steps  []ListItem `json:"steps,omitempty"`
}

// ListItem is a movement step or a mart item, or a poryswitch over such items.
type ListItem struct {
	Name  string  `json:"name,omitempty"`
	Mul   string  `json:"mul,omitempty"` // multiplier text ("" = none)
	Comma bool    `json:"comma,omitempty"`
	PS    *ListPS `json:"ps,omitempty"`
}

// ListPS is a poryswitch inside a list.
type ListPS struct {
	Switch string       `json:"switch"`
	Cases  []ListPSCase `json:"cases"`
}

// ListPSCase is one case of a list poryswitch.
type ListPSCase struct {
	Val   string     `json:"val"`
	Brace bool       `json:"brace"`
	Items []ListItem `json:"items"`
}

// TextLit is the body of a text statement.
type TextLit struct {
	Parts  []string `json:"parts,omitempty"`
	Type   string   `json:"type,omitempty"`
	IsFmt  bool     `json:"isfmt,omitempty"`
	Format string   `json:"format,omitempty"`
	PS     *TextPS  `json:"ps,omitempty"`
}

// TextPS is a poryswitch choosing a text.
type TextPS struct {
	Switch string       `json:"switch"`
	Cases  []TextPSCase `json:"cases"`
}

// TextPSCase is one case.
type TextPSCase struct {
	Val   string  `json:"val"`
	Brace bool    `json:"brace"`
	Text  TextLit `json:"text"`
}

// MSEntry is one entry of a mapscripts statement.
type MSEntry struct {
	Type   string    `json:"type"`
	Kind   string    `json:"kind"` // plain | inline | table
	Target string    `json:"target,omitempty"`
	Body   []Stmt    `json:"body,omitempty"`
	Table  []MSTable `json:"table,omitempty"`
}

// MSTable is one entry of a map script table.
type MSTable struct {
	Var    string `json:"var"`
	Val    string `json:"val"`
	Kind   string `json:"kind"` // plain | inline
	Target string `json:"target,omitempty"`
	Body   []Stmt `json:"body,omitempty"`
}

// Top is a top-level statement.
type Top struct {
	K     string     `json:"k"` // script text movement mart mapscripts raw const
	Name  string     `json:"name,omitempty"`
	Scope string     `json:"scope,omitempty"`
	Body  []Stmt     `json:"body,omitempty"`
	Text  *TextLit   `json:"text,omitempty"`
	Items []ListItem `json:"items,omitempty"`
	Raw   string     `json:"raw,omitempty"`
	Val   []string   `json:"val,omitempty"`
	MS    []MSEntry  `json:"ms,omitempty"`
}

// File is a whole source file.
type File struct {
	Tops []Top `json:"tops"`
}

// ---------------------------------------------------------------------------
// Pieces.

// Piece is one lexical unit of the rendered source.
type Piece struct {
	Text string
	Tag  string // identity of the construct this piece starts (for line spans)
	NL   bool   // pretty layout: start a new line before this piece
	Ind  int    // pretty layout: indentation
	Glue bool   // must directly follow the previous piece (string type prefix)
	Line int    // filled by Layout: 1-based line of the piece's first character
	EndL int    // line of its last character
}

type pw struct {
	ps  []Piece
	ind int
}

func (w *pw) add(text string) *Piece {
	w.ps = append(w.ps, Piece{Text: text, Ind: w.ind})
	return &w.ps[len(w.ps)-1]
}
func (w *pw) addNL(text string) *Piece {
	p := w.add(text)
	p.NL = true
	return p
}
func (w *pw) tag(tag string) { w.ps[len(w.ps)-1].Tag = tag }

// quoteParts renders a (multi-part) string literal as one piece.
func quoteParts(parts []string, sep string) string {
	q := make([]string, len(parts))
	for i, p := range parts {
		q[i] = `"` + p + `"`
	}
	return strings.Join(q, sep)
}

func (w *pw) textLit(t *TextLit, tag string) {
	if t.PS != nil {
		w.add("poryswitch")
		w.add("(")
		w.add(t.PS.Switch)
		w.add(")")
		w.add("{")
		w.ind++
		for _, c := range t.PS.Cases {
			w.addNL(c.Val)
			if c.Brace {
				w.add("{")
				w.textLit(&c.Text, tag)
				w.add("}")
			} else {
				w.add(":")
				w.textLit(&c.Text, tag)
			}
		}
		w.ind--
		w.addNL("}")
		return
	}
	if t.IsFmt {
		w.add("format")
		w.add("(")
	}
	if t.Type != "" {
		w.add(t.Type)
		p := w.add(quoteParts(t.Parts, "\n"))
		p.Glue = true
		p.Tag = tag
	} else {
		w.add(quoteParts(t.Parts, "\n")).Tag = tag
	}
	if t.IsFmt {
		if t.Format != "" {
			for _, tk := range splitSimple(t.Format) {
				w.add(tk)
			}
		}
		w.add(")")
	}
}

// splitSimple splits parameter text such as `, "font", 100, numLines=3` into
// tokens (commas, =, strings, words).
func splitSimple(s string) []string {
	var out []string
	i := 0
	for i < len(s) {
		c := s[i]
		switch {
		case c == ' ':
			i++
		case c == ',' || c == '=' || c == '(' || c == ')':
			out = append(out, string(c))
			i++
		case c == '"':
			j := strings.IndexByte(s[i+1:], '"')
			out = append(out, s[i:i+j+2])
			i += j + 2
		default:
			j := i
			for j < len(s) && !strings.ContainsRune(" ,=()\"", rune(s[j])) {
				j++
			}
			out = append(out, s[i:j])
			i = j
		}
	}
	return out
}

func (w *pw) list(items []ListItem, tagPrefix string, nl bool) {
	for i, it := range items {
		if it.PS != nil {
			p := w.add("poryswitch")
			p.NL = nl
			w.add("(")
			w.add(it.PS.Switch)
			w.add(")")
			w.add("{")
			w.ind++
			for _, c := range it.PS.Cases {
				w.addNL(c.Val)
				if c.Brace {
					w.add("{")
					w.list(c.Items, tagPrefix, false)
					w.add("}")
				} else {
					w.add(":")
					w.list(c.Items, tagPrefix, false)
				}
			}
			w.ind--
			w.addNL("}")
			continue
		}
		p := w.add(it.Name)
		p.NL = nl
		p.Tag = fmt.Sprintf("%s%d:%s", tagPrefix, i, it.Name)
		if it.Mul != "" {
			w.add("*")
			w.add(it.Mul)
		}
		if it.Comma {
			w.add(",")
		}
	}
}

func (w *pw) cmdToks(toks []string, inl []Inline, tag string, emptyParen bool) {
	w.add(toks[0]).Tag = tag
	if len(toks) == 1 {
		if emptyParen {
			w.add("(")
			w.add(")")
		}
		return
	}
	w.add("(")
	for _, t := range toks[1:] {
		if strings.HasPrefix(t, "@inl") {
			var k int
			fmt.Sscanf(t, "@inl%d", &k)
			in := &inl[k]
			if in.Kind == "moves" {
				w.add("moves")
				w.add("(")
				w.list(in.Steps, tag+"/m", false)
				w.add(")")
			} else {
				tl := TextLit{Parts: in.Parts, Type: in.Type, IsFmt: in.IsFmt, Format: in.Format}
				w.textLit(&tl, tag+"/t")
			}
			continue
		}
		w.add(t)
	}
	w.add(")")
}

func (w *pw) leaf(e *Expr, tag string) {
	if e.Form == "not" {
		w.add("!")
	}
	if e.Typ == "auto" {
		w.cmdToks(e.Toks, e.Inl, tag, true)
	} else {
		w.add(e.Typ)
		w.add("(")
		first := true
		for _, t := range strings.Fields(e.Opnd) {
			p := w.add(t)
			if first {
				p.Tag = tag
				first = false
			}
		}
		w.add(")")
	}
	if e.Form == "cmp" {
		w.add(e.Op)
		if e.Strict {
			w.add("value")
			w.add("(")
		}
		for _, t := range strings.Fields(e.Val) {
			w.add(t)
		}
		if e.Strict {
			w.add(")")
		}
	}
}

func (w *pw) expr(e *Expr, st Style, tagp string, n *int) {
	wrap := st.Parens && st.R != nil && st.R.Intn(3) == 0
	if wrap {
		w.add("(")
	}
	switch e.K {
	case "leaf":
		*n++
		w.leaf(e, fmt.Sprintf("%s/leaf%d", tagp, *n))
	case "not":
		w.add("!")
		w.add("(")
		w.expr(e.E, st, tagp, n)
		w.add(")")
	default:
		if exprPrec(e.L) < exprPrec(e) {
			w.add("(")
			w.expr(e.L, st, tagp, n)
			w.add(")")
		} else {
			w.expr(e.L, st, tagp, n)
		}
		if e.K == "and" {
			w.add("&&")
		} else {
			w.add("||")
		}
		if exprPrec(e.R) <= exprPrec(e) {
			w.add("(")
			w.expr(e.R, st, tagp, n)
			w.add(")")
		} else {
			w.expr(e.R, st, tagp, n)
		}
	}
	if wrap {
		w.add(")")
	}
}

func (w *pw) block(body []Stmt, st Style, tagp string) {
	w.add("{")
	w.ind++
	for i := range body {
		w.stmt(&body[i], st, fmt.Sprintf("%s.%d", tagp, i))
	}
	w.ind--
	w.addNL("}")
}

func (w *pw) stmt(s *Stmt, st Style, tag string) {
	switch s.K {
	case "cmd":
		ep := st.EmptyParen && st.R != nil && st.R.Intn(2) == 0
		n := len(w.ps)
		w.cmdToks(s.Toks, s.Inl, tag, ep)
		w.ps[n].NL = true
	case "label":
		w.addNL(s.Name).Tag = tag
		if s.G {
			w.add("(")
			w.add("global")
			w.add(")")
		} else if s.LMod {
			w.add("(")
			w.add("local")
			w.add(")")
		}
		w.add(":")
	case "if":
		for i, a := range s.Arms {
			if i == 0 {
				w.addNL("if")
			} else {
				w.add("elif")
			}
			w.add("(")
			n := 0
			w.expr(a.Cond, st, fmt.Sprintf("%s/c%d", tag, i), &n)
			w.add(")")
			w.block(a.Body, st, fmt.Sprintf("%s/a%d", tag, i))
		}
		if s.HasElse {
			w.add("else")
			w.block(s.Els, st, tag+"/e")
		}
	case "while":
		w.addNL("while")
		if s.HasCond {
			w.add("(")
			n := 0
			w.expr(s.Cond, st, tag+"/c", &n)
			w.add(")")
		}
		w.block(s.Body, st, tag+"/b")
	case "dowhile":
		w.addNL("do")
		w.block(s.Body, st, tag+"/b")
		w.add("while")
		w.add("(")
		n := 0
		w.expr(s.Cond, st, tag+"/c", &n)
		w.add(")")
	case "switch":
		w.addNL("switch")
		w.add("(")
		if len(s.Pre) > 0 {
			w.cmdToks(s.Pre, s.PreInl, tag+"/op", true)
		} else {
			w.add("var")
			w.add("(")
			for i, t := range strings.Fields(s.V) {
				p := w.add(t)
				if i == 0 {
					p.Tag = tag + "/op"
				}
			}
			w.add(")")
		}
		w.add(")")
		w.add("{")
		w.ind++
		for i := range s.Cases {
			c := &s.Cases[i]
			if c.IsDef {
				w.addNL("default")
			} else {
				w.addNL("case")
				for k, t := range strings.Fields(c.Val) {
					p := w.add(t)
					if k == 0 {
						p.Tag = fmt.Sprintf("%s/case%d", tag, i)
					}
				}
			}
			w.add(":")
			w.ind++
			for j := range c.Body {
				w.stmt(&c.Body[j], st, fmt.Sprintf("%s/k%d.%d", tag, i, j))
			}
			w.ind--
		}
		w.ind--
		w.addNL("}")
	case "break":
		w.addNL("break").Tag = tag
		s.PI = len(w.ps) - 1
	case "continue":
		w.addNL("continue").Tag = tag
		s.PI = len(w.ps) - 1
	case "poryswitch":
		w.addNL("poryswitch")
		w.add("(")
		w.add(s.V)
		w.add(")")
		w.add("{")
		w.ind++
		for i, c := range s.PCases {
			w.addNL(c.Val)
			if c.Brace {
				w.block(c.Body, st, fmt.Sprintf("%s/p%d", tag, i))
			} else {
				w.add(":")
				w.stmt(&c.Body[0], st, fmt.Sprintf("%s/p%d.0", tag, i))
			}
		}
		w.ind--
		w.addNL("}")
	default:
		panic("pieces: unknown statement kind " + s.K)
	}
}

func (w *pw) scope(sc string) {
	if sc != "" {
		w.add("(")
		w.add(sc)
		w.add(")")
	}
}

func (w *pw) top(t *Top, st Style, idx int) {
	tag := fmt.Sprintf("T%d", idx)
	switch t.K {
	case "script":
		w.addNL("script").Tag = tag
		w.scope(t.Scope)
		w.add(t.Name)
		w.block(t.Body, st, tag)
	case "text":
		w.addNL("text").Tag = tag
		w.scope(t.Scope)
		w.add(t.Name)
		w.add("{")
		w.ind++
		n := len(w.ps)
		w.textLit(t.Text, tag+"/t")
		w.ps[n].NL = true
		w.ind--
		w.addNL("}")
	case "movement":
		w.addNL("movement").Tag = tag
		w.scope(t.Scope)
		w.add(t.Name)
		w.add("{")
		w.ind++
		w.list(t.Items, tag+"/s", true)
		w.ind--
		w.addNL("}")
	case "mart":
		w.addNL("mart").Tag = tag
		w.scope(t.Scope)
		w.add(t.Name)
		w.add("{")
		w.ind++
		w.list(t.Items, tag+"/i", true)
		w.ind--
		w.addNL("}")
	case "raw":
		w.addNL("raw").Tag = tag
		w.add("`" + t.Raw + "`").Tag = tag + "/raw"
	case "const":
		w.addNL("const").Tag = tag
		w.add(t.Name)
		w.add("=")
		for _, v := range t.Val {
			w.add(v)
		}
	case "mapscripts":
		w.addNL("mapscripts").Tag = tag
		w.scope(t.Scope)
		w.add(t.Name)
		w.add("{")
		w.ind++
		for i := range t.MS {
			e := &t.MS[i]
			et := fmt.Sprintf("%s/ms%d", tag, i)
			w.addNL(e.Type).Tag = et
			switch e.Kind {
			case "plain":
				w.add(":")
				w.add(e.Target)
			case "inline":
				w.block(e.Body, st, et)
			case "table":
				w.add("[")
				w.ind++
				for j := range e.Table {
					te := &e.Table[j]
					tt := fmt.Sprintf("%s/t%d", et, j)
					for k, tk := range strings.Fields(te.Var) {
						p := w.add(tk)
						if k == 0 {
							p.NL = true
							p.Tag = tt
						}
					}
					w.add(",")
					for _, tk := range strings.Fields(te.Val) {
						w.add(tk)
					}
					if te.Kind == "plain" {
						w.add(":")
						w.add(te.Target)
					} else {
						w.block(te.Body, st, tt)
					}
				}
				w.ind--
				w.addNL("]")
			}
		}
		w.ind--
		w.addNL("}")
	default:
		panic("pieces: unknown top-level kind " + t.K)
	}
}

// FilePieces renders a file to pieces.
func FilePieces(f *File, st Style) []Piece {
	w := &pw{}
	for i := range f.Tops {
		w.top(&f.Tops[i], st, i)
	}
	return w.ps
}

func isWordy(c byte) bool {
	return c == '_' || c >= '0' && c <= '9' || c >= 'a' && c <= 'z' || c >= 'A' && c <= 'Z' || c >= 0x80
}

// needSep reports whether two adjacent pieces would lex differently if glued.
func needSep(a, b string) bool {
	if a == "" || b == "" {
		return false
	}
	x, y := a[len(a)-1], b[0]
	if isWordy(x) && (isWordy(y) || y == '"') {
		return true
	}
	if x == '"' && y == '"' {
		return true // two string literals would merge into one multi-part literal
	}
	if y == '=' && strings.ContainsRune("=!<>", rune(x)) {
		return true
	}
	if x == y && (x == '&' || x == '|' || x == '/') {
		return true
	}
	if x == '-' && y >= '0' && y <= '9' {
		return true
	}
	if fr, _ := utf8.DecodeRuneInString(b); x == '-' && unicode.IsDigit(fr) {
		return true // a minus sign joins any decimal digit, ASCII or not
	}
	if x == '0' && len(a) == 1 && y == 'x' {
		return true
	}
	return false
}

var layoutSeps = []string{" ", " ", "\n", "\t", "\r\n", " # c\n", " // c d\n", "\n\n", "  "}

// Layout joins pieces into text and records every piece's line.
//
//	mode 0: pretty (one statement per line, indented)
//	mode 1: everything on one line where possible
//	mode 2: random separators (blanks, tabs, newlines, CRLF, comments) at every gap
func Layout(ps []Piece, mode int, r *Rand) string {
	var sb strings.Builder
	line := 1
	write := func(s string) {
		sb.WriteString(s)
		line += strings.Count(s, "\n")
	}
	for i := range ps {
		p := &ps[i]
		if i > 0 && !p.Glue {
			prev := ps[i-1].Text
			switch mode {
			case 0:
				if p.NL {
					write("\n" + strings.Repeat("    ", p.Ind))
				} else if needSep(prev, p.Text) || !tightPair(prev, p.Text) {
					write(" ")
				}
			case 1:
				if needSep(prev, p.Text) || !tightPair(prev, p.Text) {
					write(" ")
				}
			default:
				if !needSep(prev, p.Text) && r.Intn(3) == 0 {
					// nothing
				} else {
					write(layoutSeps[r.Intn(len(layoutSeps))])
				}
			}
		}
		p.Line = line
		write(p.Text)
		p.EndL = line
	}
	write("\n")
	return sb.String()
}

// tightPair: pretty printing writes no blank between these.
func tightPair(a, b string) bool {
	if b == ")" || b == "," || b == ":" || a == "(" || a == "!" {
		return true
	}
	if b == "(" && a != "" && isWordy(a[len(a)-1]) && a != "if" && a != "elif" && a != "while" && a != "switch" {
		return true
	}
	return false
}

// RenderFile renders and lays out a file; it returns the text and the pieces
// (with lines filled in).
func RenderFile(f *File, st Style) (string, []Piece) {
	ps := FilePieces(f, st)
	src := Layout(ps, st.Layout, st.R)
	return src, ps
}

// ProgFile wraps a scripts-only program as a file.
func ProgFile(p *Prog) *File {
	f := &File{}
	for i := range p.Scripts {
		s := &p.Scripts[i]
		f.Tops = append(f.Tops, Top{K: "script", Name: s.Name, Scope: s.Scope, Body: s.Body})
	}
	return f
}
