package main

import (
	"encoding/json"
	"fmt"
	"strings"
)

func init() {
	register("C03", "model_checking", checkC03)
}

type swFam struct {
	Ctx   string `json:"ctx"`
	Cases []struct {
		IsDef bool   `json:"isdef"`
		Body  string `json:"body"`
	} `json:"cases"`
}

func swBody(pattern string, i int) []Stmt {
	cmd := Stmt{K: "cmd", Toks: []string{fmt.Sprintf("body%d", i)}}
	brk := Stmt{K: "break"}
	switch pattern {
	case "empty":
		return []Stmt{}
	case "cmd":
		return []Stmt{cmd}
	case "cmdbreak":
		return []Stmt{cmd, brk}
	case "breakcmd":
		return []Stmt{brk, cmd}
	case "break":
		return []Stmt{brk}
	case "ifbreak":
		return []Stmt{{K: "if", Arms: []Arm{{Cond: &Expr{K: "leaf", Typ: "flag", Opnd: "FLAG_B", Form: "bare"}, Body: []Stmt{brk}}}}, cmd}
	}
	panic("unknown body pattern " + pattern)
}

func swProgram(name string, f *swFam) *Prog {
	sw := Stmt{K: "switch", V: "VAR_S"}
	for i, cs := range f.Cases {
		c := Case{IsDef: cs.IsDef, Body: swBody(cs.Body, i+1)}
		if !cs.IsDef {
			c.Val = fmt.Sprint(i + 1)
		}
		sw.Cases = append(sw.Cases, c)
	}
	// a second switch of the same shape over another var, with its own command names
	sw2 := Stmt{K: "switch", V: "VAR_S2"}
	for i, cs := range f.Cases {
		c := Case{IsDef: cs.IsDef, Body: swBody(cs.Body, i+11)}
		if !cs.IsDef {
			c.Val = fmt.Sprint(i + 1)
		}
		sw2.Cases = append(sw2.Cases, c)
	}
	before := Stmt{K: "cmd", Toks: []string{"before"}}
	after := Stmt{K: "cmd", Toks: []string{"after"}}
	flagA := &Expr{K: "leaf", Typ: "flag", Opnd: "FLAG_A", Form: "bare"}
	var body []Stmt
	switch f.Ctx {
	case "alone":
		body = []Stmt{sw}
	case "first":
		body = []Stmt{sw, after}
	case "last":
		body = []Stmt{before, sw}
	case "inwhile":
		body = []Stmt{{K: "while", HasCond: true, Cond: flagA, Body: []Stmt{sw, after}}, {K: "cmd", Toks: []string{"out"}}}
	case "indowhile":
		body = []Stmt{{K: "dowhile", Cond: flagA, Body: []Stmt{before, sw}}}
	case "inswitch":
		outer := Stmt{K: "switch", V: "VAR_O", Cases: []Case{
			{Val: "7", Body: []Stmt{sw, after}},
			{IsDef: true, Body: []Stmt{{K: "cmd", Toks: []string{"odef"}}}},
		}}
		body = []Stmt{outer, {K: "cmd", Toks: []string{"out"}}}
	case "thenswitch":
		second := Stmt{K: "switch", V: "VAR_T", Cases: []Case{{Val: "1", Body: []Stmt{{K: "cmd", Toks: []string{"t1"}}}}, {Val: "2", Body: []Stmt{{K: "cmd", Toks: []string{"t2"}}}}}}
		body = []Stmt{sw, second}
	case "twice":
		body = []Stmt{sw, {K: "cmd", Toks: []string{"between"}}, sw2, after}
	case "nestedsame":
		// the same shape again inside the first case body that is not empty (or after the switch)
		outer := sw
		outer.Cases = append([]Case{}, sw.Cases...)
		placed := false
		for i := range outer.Cases {
			if len(outer.Cases[i].Body) > 0 {
				outer.Cases[i].Body = append([]Stmt{sw2}, outer.Cases[i].Body...)
				placed = true
				break
			}
		}
		body = []Stmt{outer, after}
		if !placed {
			body = []Stmt{outer, sw2, after}
		}
	case "inif":
		body = []Stmt{{K: "if", Arms: []Arm{{Cond: flagA, Body: []Stmt{sw}}}, HasElse: true, Els: []Stmt{before}}, after}
	default:
		panic("unknown context " + f.Ctx)
	}
	return &Prog{Scripts: []Script{{Name: name, Body: body}}}
}

func checkC03(c *Ctx) {
	maxCases := 3
	if !c.Quick() {
		maxCases = 4
	}
	files, ok := cachedGenModule(c, "GenSwitch", map[string]int{"MaxCases": maxCases}, "switches.ndjson")
	if !ok {
		return
	}
	r := NewRand(c.Seed*31 + 3)
	var cases []*RefCase
	rejected := 0
	n := 0
	for i, ln := range files["switches.ndjson"] {
		var f swFam
		if err := json.Unmarshal([]byte(ln), &f); err != nil {
			c.Fatal("bad switch family line: %v", err)
			return
		}
		p := swProgram(fmt.Sprintf("W%d", i), &f)
		src := RenderProg(p, Style{R: r, Layout: 0})
		n++
		compileBoth(c, fmt.Sprintf("w%d", i), p, src, Opts{}, &cases, &rejected)
		if i%1500 == 7 {
			c.Sample(map[string]interface{}{"family_member": f, "source": src})
		}
	}
	for _, p := range bigPrograms() {
		if strings.HasPrefix(p.Scripts[0].Name, "BigSwitch") {
			compileBoth(c, p.Scripts[0].Name, p, RenderProg(p, Style{R: r}), Opts{}, &cases, &rejected)
		}
	}
	st := RunRefine(c, cases, 6000, "switch does not select exactly the matching body", nil)
	c.Cov("programs", int64(n))
	c.Cov("cases", int64(st.Cases))
	c.Cov("rejected_by_compiler", int64(rejected))
	c.Cov("states", st.States)
	c.Cov("transitions", st.Generated)
	c.Cov("traces_validated_against_impl", int64(st.Cases))
	c.CovSet("exhaustive", true)
	c.CovSet("max_cases", maxCases)
	if rejected > 0 {
		o := rejectedExample.o
		c.Violate(Violation{What: fmt.Sprintf("%d well-formed switch programs were rejected by the compiler (first: %s)", rejected, rejectedExample.err), Source: rejectedExample.src, Opts: &o})
	}
}
