package main

// porycheck <ID> [--tier quick|thorough] [--replay file]
//
// Exit codes: 0 property held on everything explored (KNOWN-FINDING lines may
// be printed); 1 at least one confirmed violation not listed as known, each with
// a line "VIOLATION property=<id> replay=<path>"; 2 the machinery could not
// reach a verdict.

import (
	"crypto/sha1"
	"encoding/json"
	"fmt"
	"io"
	"log"
	"os"
	"path/filepath"
	"sort"
	"strconv"
	"strings"
	"sync"
	"time"
)

// Ctx is the state of one check run.
type Ctx struct {
	ID      string
	Tier    string
	Seed    int64
	Start   time.Time
	Replay  string // path of a replay file, "" for a normal run
	Bin     string // real poryscript binary built from /repo
	Level   string
	viol    []Violation
	known   []string
	Ev      Evidence
	fatal   []string
	Workers int
}

// Violation is one confirmed counterexample.
type Violation struct {
	What   string                 `json:"what"`
	Source string                 `json:"source,omitempty"`
	Opts   *Opts                  `json:"opts,omitempty"`
	Detail map[string]interface{} `json:"detail,omitempty"`
	Key    string                 `json:"key,omitempty"` // for known-finding matching
}

// Evidence mirrors EVIDENCE.schema.json.
type Evidence struct {
	PropertyID  string                 `json:"property_id"`
	Tier        string                 `json:"tier"`
	Seed        int64                  `json:"seed"`
	Level       string                 `json:"level"`
	Coverage    map[string]interface{} `json:"coverage"`
	Assumptions []string               `json:"assumptions,omitempty"`
	WallS       float64                `json:"wall_s"`
	Violations  int                    `json:"violations"`
}

func (c *Ctx) Quick() bool { return c.Tier != "thorough" }

// Fatal records that the machinery could not decide (exit 2).
func (c *Ctx) Fatal(format string, a ...interface{}) {
	msg := fmt.Sprintf(format, a...)
	c.fatal = append(c.fatal, msg)
	fmt.Fprintf(os.Stderr, "MACHINERY-ERROR %s: %s\n", c.ID, msg)
}

// Violate records a violation.
var violMu sync.Mutex

func (c *Ctx) Violate(v Violation) {
	violMu.Lock()
	defer violMu.Unlock()
	c.viol = append(c.viol, v)
}

// Cov adds to the coverage record (integers accumulate).
func (c *Ctx) Cov(key string, n int64) {
	if c.Ev.Coverage == nil {
		c.Ev.Coverage = map[string]interface{}{}
	}
	old, _ := c.Ev.Coverage[key].(int64)
	c.Ev.Coverage[key] = old + n
}

func (c *Ctx) CovSet(key string, v interface{}) {
	if c.Ev.Coverage == nil {
		c.Ev.Coverage = map[string]interface{}{}
	}
	c.Ev.Coverage[key] = v
}

// Sample keeps up to 6 samples.
func (c *Ctx) Sample(v interface{}) {
	if c.Ev.Coverage == nil {
		c.Ev.Coverage = map[string]interface{}{}
	}
	s, _ := c.Ev.Coverage["samples"].([]interface{})
	if len(s) < 6 {
		c.Ev.Coverage["samples"] = append(s, v)
	}
}

// outRoot is where evidence/ and replays/ are written ("" = verifRoot).
var outRoot string

func outDir() string {
	if outRoot != "" {
		return outRoot
	}
	return verifRoot
}

type checkFn func(c *Ctx)

var registry = map[string]checkFn{}
var levels = map[string]string{}

func register(id, level string, fn checkFn) {
	registry[id] = fn
	levels[id] = level
}

type knownFinding struct {
	Status   string `json:"status"` // open | fixed
	Property string `json:"property"`
	ID       string `json:"id"`
	What     string `json:"what"`
	Key      string `json:"key"`
	Commit   string `json:"commit,omitempty"`
}

// loadKnown reads /verif/KNOWN_FINDINGS.txt.  Lines:
//
//	open: property=<id> key=<key> <what fails>
//	fixed: property=<id> <commit> <what failed>      (suppresses nothing)
func loadKnown() []knownFinding {
	var out []knownFinding
	b, err := os.ReadFile(filepath.Join(verifRoot, "KNOWN_FINDINGS.txt"))
	if err != nil {
		return nil
	}
	for _, ln := range strings.Split(string(b), "\n") {
		ln = strings.TrimSpace(ln)
		if !strings.HasPrefix(ln, "open:") {
			continue
		}
		f := strings.Fields(strings.TrimPrefix(ln, "open:"))
		if len(f) < 3 || !strings.HasPrefix(f[0], "property=") || !strings.HasPrefix(f[1], "key=") {
			continue
		}
		out = append(out, knownFinding{Status: "open", Property: strings.TrimPrefix(f[0], "property="),
			Key: strings.TrimPrefix(f[1], "key="), ID: strings.TrimPrefix(f[1], "key="), What: strings.Join(f[2:], " ")})
	}
	return out
}

// curCtx is the running check (for the hang handler of CompileLimit).
var curCtx *Ctx
var abortOnce sync.Once

// abortNow records v, reports what has been found so far and ends the process.
func (c *Ctx) abortNow(v Violation) {
	abortOnce.Do(func() {
		c.Violate(v)
		os.Exit(c.finish())
	})
	select {} // another goroutine is already finishing
}

func (c *Ctx) finish() int {
	c.Ev.PropertyID = c.ID
	c.Ev.Tier = c.Tier
	c.Ev.Seed = c.Seed
	c.Ev.Level = c.Level
	c.Ev.WallS = time.Since(c.Start).Seconds()
	if c.Ev.Coverage == nil {
		c.Ev.Coverage = map[string]interface{}{}
	}
	// attribute violations to open known findings by key
	known := loadKnown()
	var fresh []Violation
	seenKnown := map[string]bool{}
	for _, v := range c.viol {
		matched := false
		for _, k := range known {
			if k.Status == "open" && k.Property == c.ID && k.Key != "" && k.Key == v.Key {
				matched = true
				if !seenKnown[k.ID] {
					seenKnown[k.ID] = true
					fmt.Printf("KNOWN-FINDING: property=%s %s\n", c.ID, k.What)
				}
				break
			}
		}
		if !matched {
			fresh = append(fresh, v)
		}
	}
	c.Ev.Violations = len(fresh)
	c.Ev.Coverage["known_finding_hits"] = len(c.viol) - len(fresh)
	if c.Replay == "" {
		os.MkdirAll(filepath.Join(outDir(), "evidence"), 0o755)
		b, _ := json.MarshalIndent(c.Ev, "", " ")
		if len(c.fatal) == 0 || len(fresh) > 0 {
			os.WriteFile(filepath.Join(outDir(), "evidence", c.ID+".json"), b, 0o644)
		}
	}
	// report at most 10 violations, each with a replay file
	os.MkdirAll(filepath.Join(outDir(), "replays"), 0o755)
	sort.SliceStable(fresh, func(i, j int) bool { return len(fresh[i].Source) < len(fresh[j].Source) })
	for i, v := range fresh {
		if i >= 10 {
			break
		}
		rb, _ := json.MarshalIndent(map[string]interface{}{"property": c.ID, "violation": v}, "", " ")
		h := sha1.Sum(rb)
		path := filepath.Join(outDir(), "replays", fmt.Sprintf("%s-%x.json", c.ID, h[:6]))
		os.WriteFile(path, rb, 0o644)
		fmt.Printf("VIOLATION property=%s replay=%s\n", c.ID, path)
		fmt.Printf("  what: %s\n", v.What)
	}
	if len(fresh) > 0 {
		return 1
	}
	if len(c.fatal) > 0 {
		return 2
	}
	fmt.Printf("OK property=%s tier=%s seed=%d wall=%.1fs\n", c.ID, c.Tier, c.Seed, c.Ev.WallS)
	return 0
}

func main() {
	if len(os.Args) < 2 {
		fmt.Fprintln(os.Stderr, "usage: porycheck <ID> [--tier quick|thorough] [--replay file]")
		os.Exit(2)
	}
	id := os.Args[1]
	if id == "__compile" {
		// fresh-process compilation of one input (JSON {src, opts} on stdin): prints the digest
		log.SetOutput(io.Discard)
		var in struct {
			Src  string `json:"src"`
			Opts Opts   `json:"opts"`
		}
		if err := json.NewDecoder(os.Stdin).Decode(&in); err != nil {
			fmt.Println("BADINPUT")
			os.Exit(2)
		}
		fmt.Println(digestOf(Compile(in.Src, in.Opts)))
		os.Exit(0)
	}
	c := &Ctx{ID: id, Tier: "quick", Seed: 1, Start: time.Now(), Workers: 16}
	curCtx = c
	if t := os.Getenv("VERIF_TIER"); t == "thorough" || t == "quick" {
		c.Tier = t
	}
	if s := os.Getenv("VERIF_SEED"); s != "" {
		if n, err := strconv.ParseInt(s, 10, 64); err == nil {
			c.Seed = n
		}
	}
	if r := os.Getenv("VERIF_ROOT"); r != "" {
		verifRoot = r
	}
	c.Bin = filepath.Join(verifRoot, "bin", "poryscript")
	if b := os.Getenv("VERIF_BIN"); b != "" {
		c.Bin = filepath.Join(b, "poryscript")
	}
	if rp := os.Getenv("VERIF_REPO"); rp != "" {
		repoFontConfig = filepath.Join(rp, "font_config.json")
	}
	if od := os.Getenv("VERIF_OUT"); od != "" {
		outRoot = od
	}
	for i := 2; i < len(os.Args); i++ {
		switch os.Args[i] {
		case "--tier":
			i++
			c.Tier = os.Args[i]
		case "--replay":
			i++
			c.Replay = os.Args[i]
		case "--workers":
			i++
			c.Workers, _ = strconv.Atoi(os.Args[i])
		}
	}
	log.SetOutput(io.Discard) // the compiler's warnings about fonts are not our output
	fn, ok := registry[id]
	if !ok {
		fmt.Fprintf(os.Stderr, "unknown check %q\n", id)
		os.Exit(2)
	}
	c.Level = levels[id]
	if c.Replay == "" {
		// replay files of earlier runs of this check are stale
		old, _ := filepath.Glob(filepath.Join(outDir(), "replays", id+"-*.json"))
		for _, f := range old {
			os.Remove(f)
		}
	}
	func() {
		defer func() {
			if r := recover(); r != nil {
				c.Fatal("harness panic: %v", r)
			}
		}()
		fn(c)
	}()
	os.Exit(c.finish())
}
