package main

// Emitter-only mode: the program literals of the repository's own test files,
// parsed by the REAL parser, with the parser's AST converted (field by field,
// no interpretation) into the abstract syntax PoryLang reads.  This validates
// what the existing functional tests exercise with much stronger assertions
// than theirs: the emitted assembly is executed against the AST's meaning.

import (
	"encoding/json"
	"fmt"
	goast "go/ast"
	goparser "go/parser"
	gotoken "go/token"
	"os"
	"path/filepath"
	"strconv"
	"strings"

	"github.com/huderlem/poryscript/ast"
	"github.com/huderlem/poryscript/lexer"
	"github.com/huderlem/poryscript/parser"
	"github.com/huderlem/poryscript/token"
)

func repoRoot() string {
	if rp := os.Getenv("VERIF_REPO"); rp != "" {
		return rp
	}
	return "/repo"
}

// corpusLiterals extracts every string literal of the repository's test files.
func corpusLiterals() []string {
	var out []string
	seen := map[string]bool{}
	files, _ := filepath.Glob(filepath.Join(repoRoot(), "*", "*_test.go"))
	for _, f := range files {
		fset := gotoken.NewFileSet()
		af, err := goparser.ParseFile(fset, f, nil, 0)
		if err != nil {
			continue
		}
		goast.Inspect(af, func(n goast.Node) bool {
			bl, ok := n.(*goast.BasicLit)
			if !ok || bl.Kind != gotoken.STRING {
				return true
			}
			s, err := strconv.Unquote(bl.Value)
			if err != nil || len(s) < 12 || seen[s] {
				return true
			}
			seen[s] = true
			out = append(out, s)
			return true
		})
	}
	return out
}

func repoCommandConfig() parser.CommandConfig {
	var cc parser.CommandConfig
	b, err := os.ReadFile(filepath.Join(repoRoot(), "command_config.json"))
	if err == nil {
		json.Unmarshal(b, &cc)
	}
	return cc
}

func argToks(name string, args []string) []string {
	toks := []string{name}
	for i, a := range args {
		if i > 0 {
			toks = append(toks, ",")
		}
		toks = append(toks, splitToks(a)...)
	}
	return toks
}

var tokOp = map[token.Type]string{token.EQ: "==", token.NEQ: "!=", token.LT: "<", token.LTE: "<=", token.GT: ">", token.GTE: ">="}

func convExpr(e ast.BooleanExpression) (*Expr, error) {
	switch x := e.(type) {
	case *ast.BinaryExpression:
		l, err := convExpr(x.Left)
		if err != nil {
			return nil, err
		}
		r, err := convExpr(x.Right)
		if err != nil {
			return nil, err
		}
		switch x.Operator {
		case token.AND:
			return &Expr{K: "and", L: l, R: r}, nil
		case token.OR:
			return &Expr{K: "or", L: l, R: r}, nil
		}
		return nil, fmt.Errorf("binary operator %q", x.Operator)
	case *ast.OperatorExpression:
		leaf := &Expr{K: "leaf", Form: "cmp", Opnd: x.Operand.Literal, Val: x.ComparisonValue, RawVal: x.ComparisonValue,
			Strict: x.ComparisonValueType == ast.StrictValueComparison}
		op, ok := tokOp[x.Operator]
		if !ok {
			return nil, fmt.Errorf("comparison operator %q", x.Operator)
		}
		leaf.Op = op
		switch x.Type {
		case token.FLAG:
			leaf.Typ = "flag"
		case token.DEFEATED:
			leaf.Typ = "defeated"
		case token.VAR:
			leaf.Typ = "var"
			if x.PreambleStatement != nil {
				leaf.Typ = "auto"
				leaf.Toks = argToks(x.PreambleStatement.Name.Value, x.PreambleStatement.Args)
			}
			if leaf.Strict && strings.HasPrefix(leaf.Val, "( ") && strings.HasSuffix(leaf.Val, " )") {
				// the parser already wrapped a multi-token value(); PoryLang wraps it itself
				leaf.Val = leaf.Val[2 : len(leaf.Val)-2]
			}
		default:
			return nil, fmt.Errorf("leaf type %q", x.Type)
		}
		return leaf, nil
	}
	return nil, fmt.Errorf("expression %T", e)
}

func convBlock(b *ast.BlockStatement) ([]Stmt, error) {
	out := []Stmt{}
	if b == nil {
		return out, nil
	}
	for _, st := range b.Statements {
		switch x := st.(type) {
		case *ast.CommandStatement:
			out = append(out, Stmt{K: "cmd", Toks: argToks(x.Name.Value, x.Args)})
		case *ast.LabelStatement:
			out = append(out, Stmt{K: "label", Name: x.Name.Value, G: x.IsGlobal})
		case *ast.BreakStatement:
			out = append(out, Stmt{K: "break"})
		case *ast.ContinueStatement:
			out = append(out, Stmt{K: "continue"})
		case *ast.IfStatement:
			s := Stmt{K: "if"}
			arms := append([]*ast.ConditionExpression{x.Consequence}, x.ElifConsequences...)
			for _, a := range arms {
				c, err := convExpr(a.Expression)
				if err != nil {
					return nil, err
				}
				body, err := convBlock(a.Body)
				if err != nil {
					return nil, err
				}
				s.Arms = append(s.Arms, Arm{Cond: c, Body: body})
			}
			if x.ElseConsequence != nil {
				s.HasElse = true
				els, err := convBlock(x.ElseConsequence)
				if err != nil {
					return nil, err
				}
				s.Els = els
			}
			out = append(out, s)
		case *ast.WhileStatement:
			s := Stmt{K: "while"}
			if x.Consequence.Expression != nil {
				c, err := convExpr(x.Consequence.Expression)
				if err != nil {
					return nil, err
				}
				s.HasCond, s.Cond = true, c
			}
			body, err := convBlock(x.Consequence.Body)
			if err != nil {
				return nil, err
			}
			s.Body = body
			out = append(out, s)
		case *ast.DoWhileStatement:
			c, err := convExpr(x.Consequence.Expression)
			if err != nil {
				return nil, err
			}
			body, err := convBlock(x.Consequence.Body)
			if err != nil {
				return nil, err
			}
			out = append(out, Stmt{K: "dowhile", Cond: c, Body: body})
		case *ast.SwitchStatement:
			s := Stmt{K: "switch", V: x.Operand.Literal}
			// the parser puts the AutoVar command as a plain statement before the
			// switch; it stays a plain command here too
			for _, cs := range x.Cases {
				body, err := convBlock(cs.Body)
				if err != nil {
					return nil, err
				}
				s.Cases = append(s.Cases, Case{IsDef: cs.IsDefault, Val: cs.Value.Literal, Body: body})
			}
			out = append(out, s)
		default:
			return nil, fmt.Errorf("statement %T", st)
		}
	}
	return out, nil
}

// corpusCases compiles every accepted test literal (optimize on and off) and
// returns product cases in emitter-only mode.
func corpusCases(c *Ctx) (cases []*RefCase, accepted, skipped int) {
	cc := repoCommandConfig()
	for i, src := range corpusLiterals() {
		parse := func() (prog *ast.Program, err error) {
			defer func() {
				if r := recover(); r != nil {
					err = fmt.Errorf("panic: %v", r)
				}
			}()
			p := parser.New(lexer.New(src), cc, filepath.Join(repoRoot(), "font_config.json"), "", 0, map[string]string{"GAME_VERSION": "RUBY", "LANG": "DE"})
			return p.ParseProgram()
		}
		prog, err := parse()
		if err != nil || prog == nil {
			continue
		}
		p := &Prog{}
		ok := true
		extra := []string{}
		for _, st := range prog.TopLevelStatements {
			switch x := st.(type) {
			case *ast.ScriptStatement:
				body, err := convBlock(x.Body)
				if err != nil {
					ok = false
					break
				}
				p.Scripts = append(p.Scripts, Script{Name: x.Name.Value, Body: body})
			case *ast.MapScriptsStatement:
				for _, ch := range x.AllChildren() {
					if ss, isScript := ch.(*ast.ScriptStatement); isScript {
						body, err := convBlock(ss.Body)
						if err != nil {
							ok = false
							break
						}
						p.Scripts = append(p.Scripts, Script{Name: ss.Name.Value, Body: body})
					}
				}
			}
		}
		if !ok || len(p.Scripts) == 0 {
			continue
		}
		accepted++
		names := map[string]bool{}
		dup := false
		for _, s := range p.Scripts {
			if names[s.Name] {
				dup = true
			}
			names[s.Name] = true
		}
		if dup || usesControlOpsAsCommands(p) {
			skipped++
			continue
		}
		for _, opt := range []bool{true, false} {
			o := Opts{Optimize: opt}
			res := emitOnly(prog, opt)
			if res.Err != nil || res.Panic != "" {
				continue
			}
			cases = append(cases, &RefCase{ID: fmt.Sprintf("corpus%d.o%d", i, b2i(opt)), Prog: p, Src: src, Opts: o, Out: res.Out, ExtraScripts: extra})
		}
	}
	return
}
