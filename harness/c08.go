package main

import (
	"fmt"
	"strings"
)

func init() {
	register("C08", "model_checking", checkC08)
}

var msTypes = []string{"MAP_SCRIPT_ON_LOAD", "MAP_SCRIPT_ON_TRANSITION", "MAP_SCRIPT_ON_RESUME", "MAP_SCRIPT_ON_FRAME_TABLE",
	"MAP_SCRIPT_ON_WARP_INTO_MAP_TABLE", "MAP_SCRIPT_ON_DIVE_WARP", "MAP_SCRIPT_ON_RETURN_TO_FIELD"}

// msObserve extracts what MapScripts.tla judges from a parsed output.
func msObserve(pa *ParsedAsm, name string) map[string]interface{} {
	obs := map[string]interface{}{"found": false, "header": []interface{}{}, "hterm": false}
	defs := map[string]interface{}{"@": map[string]interface{}{"n": 0, "g": false}}
	for _, ln := range pa.Lines {
		if ln["k"] == "label" {
			n := ln["name"].(string)
			if d, ok := defs[n]; ok {
				d.(map[string]interface{})["n"] = d.(map[string]interface{})["n"].(int) + 1
			} else {
				defs[n] = map[string]interface{}{"n": 1, "g": ln["g"]}
			}
		}
	}
	obs["defs"] = defs
	tables := []map[string]interface{}{}
	for i, ln := range pa.Lines {
		if ln["k"] != "label" {
			continue
		}
		if ln["name"] == name && obs["found"] == false {
			obs["found"] = true
			header := []map[string]interface{}{}
			j := i + 1
			for ; j < len(pa.Lines) && pa.Lines[j]["k"] == "ins" && pa.Lines[j]["op"] == "map_script"; j++ {
				a := pa.Lines[j]["a"].([]string)
				if len(a) == 2 {
					header = append(header, map[string]interface{}{"type": a[0], "target": a[1]})
				} else {
					header = append(header, map[string]interface{}{"type": strings.Join(a, ","), "target": "?"})
				}
			}
			obs["header"] = header
			obs["hterm"] = j < len(pa.Lines) && pa.Lines[j]["k"] == "data" && pa.Lines[j]["dir"] == ".byte" && pa.Lines[j]["rest"] == "0"
			continue
		}
		// a table: a label directly followed by map_script_2 lines / .2byte 0
		if i+1 < len(pa.Lines) {
			nx := pa.Lines[i+1]
			isT := nx["k"] == "ins" && nx["op"] == "map_script_2" || nx["k"] == "data" && nx["dir"] == ".2byte" && nx["rest"] == "0"
			if !isT {
				continue
			}
			rows := []map[string]interface{}{}
			j := i + 1
			for ; j < len(pa.Lines) && pa.Lines[j]["k"] == "ins" && pa.Lines[j]["op"] == "map_script_2"; j++ {
				a := pa.Lines[j]["a"].([]string)
				if len(a) == 3 {
					rows = append(rows, map[string]interface{}{"var": a[0], "val": a[1], "target": a[2]})
				} else {
					rows = append(rows, map[string]interface{}{"var": strings.Join(a, ","), "val": "?", "target": "?"})
				}
			}
			term := j < len(pa.Lines) && pa.Lines[j]["k"] == "data" && pa.Lines[j]["dir"] == ".2byte" && pa.Lines[j]["rest"] == "0"
			tables = append(tables, map[string]interface{}{"label": ln["name"], "rows": rows, "term": term})
		}
	}
	obs["tables"] = tables
	return obs
}

func msEntriesRecord(t *Top) []map[string]interface{} {
	out := []map[string]interface{}{}
	for i := range t.MS {
		e := &t.MS[i]
		rows := []map[string]interface{}{}
		for _, r := range e.Table {
			rows = append(rows, map[string]interface{}{"var": r.Var, "val": r.Val, "kind": r.Kind, "target": r.Target})
		}
		out = append(out, map[string]interface{}{"type": e.Type, "kind": e.Kind, "target": e.Target, "rows": rows})
	}
	return out
}

func checkC08(c *Ctx) {
	n := 300
	if !c.Quick() {
		n = 5000
	}
	r := NewRand(c.Seed*1319 + 8)
	ctl, ok := cachedGenModule(c, "GenCtl", map[string]int{"Level": 2}, "one.ndjson", "nest.ndjson")
	if !ok {
		return
	}
	pool := ctlPrograms(c, ctl["one.ndjson"], "b", 5, c.Seed)
	var recs []map[string]interface{}
	srcOf, outOf := map[string]string{}, map[string]string{}
	var ref []*RefCase
	nInline := 0
	var hevs []map[string]interface{}
	for i := 0; i < n; i++ {
		withData := i%3 == 2 // every third file has inline text / moves() in its bodies
		g := newFgen(r, FileCfg{Inline: withData, Ctl: GenCfg{MaxDepth: 2, MaxStmts: 2, MaxLeaves: 2, Switches: true}})
		body := func(tag string) []Stmt {
			var b []Stmt
			if r.Chance(1, 2) {
				b = cloneStmts(pool[r.Intn(len(pool))].Scripts[0].Body)
				renameApart(b, tag+"_")
			} else {
				b = g.gen.block(genCtx{depth: 0, brace: true}, 3)
				// labels must be unique across the file
				walkStmts(b, func(s *Stmt) {
					if s.K == "label" {
						s.Name = tag + "_" + s.Name
					}
					if s.K == "cmd" && s.Toks[0] == "goto" && strings.HasPrefix(s.Toks[1], "Lab") {
						s.Toks[1] = tag + "_" + s.Toks[1]
					}
				})
			}
			if withData {
				b = g.decorate(b, 0)
			}
			return b
		}
		f := &File{}
		if r.Chance(1, 2) {
			f.Tops = append(f.Tops, Top{K: "script", Name: fmt.Sprintf("Before%d", i), Body: body(fmt.Sprintf("Bf%d", i))})
		}
		nms := 1 + r.Intn(2)
		var msTops []int
		for m := 0; m < nms; m++ {
			t := Top{K: "mapscripts", Name: fmt.Sprintf("Map%d_%d", i, m), Scope: g.scopeMod()}
			ne := r.Intn(5)
			types := r.Perm(len(msTypes))
			for k := 0; k < ne; k++ {
				e := MSEntry{Type: msTypes[types[k]]}
				switch r.Intn(3) {
				case 0:
					e.Kind, e.Target = "plain", fmt.Sprintf("Ext_Script_%d", k)
				case 1:
					e.Kind = "inline"
					e.Body = body(fmt.Sprintf("I%d_%d_%d", i, m, k))
				default:
					e.Kind = "table"
					nr := r.Intn(4)
					for j := 0; j < nr; j++ {
						row := MSTable{Var: r.Pick([]string{"VAR_TEMP_0", "VAR_STATE", "VAR_0x8004", "VAR_A + 1", "VAR_B % 2"}), Val: r.Pick([]string{"0", "1", "5", "1 + 2", "STATE_X", "NUM_STATES % 4", "( A | B ) & 3", "-1"})}
						if r.Chance(1, 2) {
							row.Kind, row.Target = "plain", fmt.Sprintf("Ext_Row_%d", j)
						} else {
							row.Kind = "inline"
							row.Body = body(fmt.Sprintf("R%d_%d_%d_%d", i, m, k, j))
						}
						e.Table = append(e.Table, row)
					}
				}
				t.MS = append(t.MS, e)
			}
			// a plain entry (or plain table row) may name the label of an inline script of the
			// same statement
			var inlineNames []string
			for _, e := range t.MS {
				if e.Kind == "inline" {
					inlineNames = append(inlineNames, t.Name+"_"+e.Type)
				}
				for j, row := range e.Table {
					if row.Kind == "inline" {
						inlineNames = append(inlineNames, fmt.Sprintf("%s_%s_%d", t.Name, e.Type, j))
					}
				}
			}
			if len(inlineNames) > 0 {
				for k := range t.MS {
					if t.MS[k].Kind == "plain" && r.Chance(1, 3) {
						t.MS[k].Target = r.Pick(inlineNames)
					}
					for j := range t.MS[k].Table {
						if t.MS[k].Table[j].Kind == "plain" && r.Chance(1, 3) {
							t.MS[k].Table[j].Target = r.Pick(inlineNames)
						}
					}
				}
			}
			msTops = append(msTops, len(f.Tops))
			f.Tops = append(f.Tops, t)
			if r.Chance(1, 3) {
				f.Tops = append(f.Tops, Top{K: "script", Name: fmt.Sprintf("Mid%d_%d", i, m), Body: body(fmt.Sprintf("Md%d_%d", i, m))})
			}
		}
		src, _ := RenderFile(f, Style{R: r, Layout: i % 3})
		for _, opt := range []bool{true, false} {
			o := Opts{Optimize: opt, AutoVar: g.autoCfg}
			res := Compile(src, o)
			fid := fmt.Sprintf("f%d.o%d", i, b2i(opt))
			srcOf[fid] = src
			if res.Panic != "" || res.TimedOut {
				c.Violate(Violation{What: "compiler panicked or hung", Source: src, Opts: &o, Detail: map[string]interface{}{"panic": res.Panic}})
				continue
			}
			if res.Err != nil {
				c.Violate(Violation{What: "well-formed mapscripts rejected: " + res.Err.Error(), Source: src, Opts: &o})
				continue
			}
			outOf[fid] = res.Out
			if withData {
				// inline text / moves() inside inline map scripts must be hoisted
				// like in a script statement: the file's trace goes to HoistTrace
				e, err := hoistEvents(fid, f, res)
				if err != nil {
					c.Fatal("building events: %v", err)
					return
				}
				hevs = append(hevs, e...)
			}
			pa := ParseAsm(res.Out)
			for _, ti := range msTops {
				t := &f.Tops[ti]
				rec := msObserve(pa, t.Name)
				rec["id"] = fmt.Sprintf("%s#%s", fid, t.Name)
				rec["name"] = t.Name
				rec["entries"] = msEntriesRecord(t)
				recs = append(recs, rec)
			}
			{
				// (inline text / moves() arguments are resolved inside the product: Refine!TokMatch)
				names, bodies := InlineScripts(f)
				p := &Prog{}
				for k := range names {
					p.Scripts = append(p.Scripts, Script{Name: names[k], Body: bodies[k]})
				}
				if len(p.Scripts) > 0 && !usesControlOpsAsCommands(p) {
					nInline += len(p.Scripts)
					oc := o
					ref = append(ref, &RefCase{ID: fid, Prog: p, Src: src, Opts: oc, Out: res.Out})
				}
			}
			if i < 2 && opt {
				c.Sample(map[string]interface{}{"source": src, "output": res.Out})
			}
		}
	}
	bad, states, ok := runPairCases(c, "MapScripts", "mapscripts.ndjson", recs)
	if !ok {
		return
	}
	seen := map[string]bool{}
	for id := range bad {
		fid := id[:strings.Index(id, "#")]
		if seen[fid] {
			continue
		}
		seen[fid] = true
		c.Violate(Violation{What: "mapscripts header/tables not complete, ordered and terminated, or an inline script not defined exactly once (" + id + ")",
			Source: srcOf[fid], Detail: map[string]interface{}{"output": outOf[fid]}})
	}
	if len(hevs) > 0 {
		to := runTraceSpec(c, "HoistTrace", "HoistTrace.cfg", "hoist.ndjson", hevs)
		for fid, why := range to.Rejected {
			c.Violate(Violation{What: "inline data of an inline map script is not hoisted like in a script statement: " + why,
				Source: srcOf[fid], Detail: map[string]interface{}{"output": outOf[fid]}})
		}
		states += to.States
	}
	st := RunRefine(c, ref, 1500, "an inline map script does not behave like its body", nil)
	c.Cov("mapscripts_statements", int64(len(recs)))
	c.Cov("inline_scripts_explored", int64(nInline))
	c.Cov("states", states+st.States)
	c.Cov("transitions", states+st.Generated)
	c.Cov("traces_validated_against_impl", int64(len(recs)+st.Cases))
}

func cloneStmts(b []Stmt) []Stmt {
	x, _ := jsonMarshal(b)
	var out []Stmt
	jsonUnmarshal(x, &out)
	normalizeStmts(out)
	return out
}
