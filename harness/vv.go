package main

// ScriptVM x ScriptVM product (spec/RefineVV.tla).

import (
	"fmt"
	"sort"
	"strings"
	"time"
)

// VVCase pairs two real outputs.
type VVCase struct {
	ID      string
	Src     string
	Opts    Opts
	Out1    string
	Out2    string
	Scripts []string // script names (entries / sub-label shapes) valid in both
	ULabels []string
	Entries [][2]string       // label in out1, label in out2
	Ren     map[string]string // hoisted-label renaming out1 -> out2 (optional)
	Extra2  []string          // extra script names valid in out2 only
	Extra1  []string
}

func groupDefs(pa *ParsedAsm) (defs []map[string]interface{}, vis []map[string]interface{}) {
	defs = []map[string]interface{}{}
	vis = []map[string]interface{}{}
	for i, ln := range pa.Lines {
		if ln["k"] != "label" {
			continue
		}
		role := ln["role"].(string)
		if role == "entry" || role == "user" {
			vis = append(vis, map[string]interface{}{"name": ln["name"], "g": ln["g"]})
		}
		if role != "data" {
			continue
		}
		body := []string{}
		for j := i + 1; j < len(pa.Lines) && pa.Lines[j]["k"] != "label"; j++ {
			body = append(body, strings.TrimSpace(pa.Raw[pa.Lines[j]["phys"].(int)-1]))
		}
		defs = append(defs, map[string]interface{}{"name": ln["name"], "g": ln["g"], "body": body})
	}
	return
}

func buildVVRecord(vc *VVCase) map[string]interface{} {
	side := func(out string, extra []string) (map[string]interface{}, []map[string]interface{}, []map[string]interface{}) {
		pa := ParseAsm(out)
		names := toSet(vc.Scripts)
		for _, e := range extra {
			names[e] = true
		}
		lab := AnnotateRoles(pa, names, toSet(vc.ULabels))
		defs, vis := groupDefs(pa)
		asm := make([]AsmLine, len(pa.Lines))
		copy(asm, pa.Lines)
		return map[string]interface{}{"asm": asm, "lab": lab}, defs, vis
	}
	a1, d1, v1 := side(vc.Out1, vc.Extra1)
	a2, d2, v2 := side(vc.Out2, vc.Extra2)
	entries := []map[string]interface{}{}
	for _, e := range vc.Entries {
		entries = append(entries, map[string]interface{}{"l1": e[0], "l2": e[1]})
	}
	rec := map[string]interface{}{"id": vc.ID, "a1": a1, "a2": a2, "entries": entries,
		"defs1": d1, "defs2": d2, "vis1": v1, "vis2": v2}
	if len(vc.Ren) > 0 {
		ren := map[string]interface{}{}
		for k, v := range vc.Ren {
			ren[k] = v
		}
		rec["ren"] = ren
	}
	return rec
}

// VVStats accumulates results.
type VVStats struct {
	Cases     int
	States    int64
	Generated int64
	Bad       map[string]string
}

// RunVV explores all pairs; divergences become violations.
func RunVV(c *Ctx, cases []*VVCase, batch int, what string, compareData bool) *VVStats {
	st := &VVStats{Bad: map[string]string{}}
	byID := map[string]*VVCase{}
	for _, vc := range cases {
		byID[vc.ID] = vc
	}
	for i := 0; i < len(cases); i += batch {
		j := i + batch
		if j > len(cases) {
			j = len(cases)
		}
		var nd NDJSON
		for _, vc := range cases[i:j] {
			rec := buildVVRecord(vc)
			if !compareData {
				rec["defs1"], rec["defs2"] = []string{}, []string{}
				rec["vis1"], rec["vis2"] = []string{}, []string{}
			}
			if err := nd.Add(rec); err != nil {
				c.Fatal("encoding vv case: %v", err)
				return st
			}
		}
		res, err := RunTLC(fmt.Sprintf("%s.vv%d", c.ID, i/batch), TLCJob{Module: "RefineVV", Cfg: "RefineVV.cfg",
			Data: map[string][]byte{"vvcases.ndjson": nd.Bytes()}, Workers: c.Workers, Timeout: 30 * time.Minute, HeapGB: 12})
		if err != nil {
			c.Fatal("RefineVV run failed: %v", err)
			return st
		}
		if !res.Clean() {
			// as in runRefineBatch: divergences printed before the run stopped are kept (and confirmed alone)
			found := 0
			for _, m := range reDiverged.FindAllStringSubmatch(res.Output, -1) {
				if _, ok := st.Bad[m[3]]; !ok || m[1] == "DIVERGED" {
					st.Bad[m[3]] = m[1]
					found++
				}
			}
			if found == 0 {
				c.Fatal("RefineVV run failed: %v\n%s", err, tail(res.Output, 3000))
				return st
			}
			fmt.Printf("note: a RefineVV batch did not finish (timedout=%v); %d divergences found before that are reported\n", res.TimedOut, found)
			st.Cases += j - i
			continue
		}
		st.Cases += j - i
		st.States += res.Distinct
		st.Generated += res.Generated
		for _, m := range reDiverged.FindAllStringSubmatch(res.Output, -1) {
			if _, ok := st.Bad[m[3]]; !ok || m[1] == "DIVERGED" {
				st.Bad[m[3]] = m[1]
			}
		}
	}
	ids := make([]string, 0, len(st.Bad))
	for id := range st.Bad {
		ids = append(ids, id)
	}
	sort.Slice(ids, func(a, b int) bool { return len(byID[ids[a]].Src) < len(byID[ids[b]].Src) })
	for n, id := range ids {
		vc := byID[id]
		v := Violation{What: fmt.Sprintf("%s (%s, %s)", what, st.Bad[id], id), Source: vc.Src, Opts: &vc.Opts,
			Detail: map[string]interface{}{"output1": vc.Out1, "output2": vc.Out2}}
		if n < 5 && st.Bad[id] == "DIVERGED" {
			var nd NDJSON
			nd.Add(buildVVRecord(vc))
			res, err := RunTLC("vvtrace", TLCJob{Module: "RefineVV", Cfg: "RefineVVTrace.cfg", Data: map[string][]byte{"vvcases.ndjson": nd.Bytes()},
				Workers: 1, Timeout: 2 * time.Minute, HeapGB: 4})
			if err != nil || !strings.Contains(res.Output, "is violated") {
				c.Fatal("vv case %s diverged in the batch but not alone; counterexample unconfirmed", id)
				continue
			}
			if k := strings.Index(res.Output, "Error: Invariant"); k >= 0 {
				v.Detail["tlc_trace"] = tail(res.Output[k:], 6000)
			}
		}
		c.Violate(v)
	}
	return st
}
