package main

// Abstract syntax of poryscript programs, shared (as JSON) between the TLA+
// generator modules (spec/Gen*.tla), this harness and the TLA+ semantics
// (spec/PoryLang.tla).  The harness only renders it to text and flattens it to
// the node tables PoryLang reads; it gives it no meaning.

import (
	"fmt"
	"strings"
)

// Expr is a boolean expression tree.
type Expr struct {
	K string `json:"k"` // and | or | not | leaf
	L *Expr  `json:"l,omitempty"`
	R *Expr  `json:"r,omitempty"`
	E *Expr  `json:"e,omitempty"`
	// leaf fields
	Typ    string   `json:"typ,omitempty"`    // flag | var | defeated | auto
	Opnd   string   `json:"opnd,omitempty"`   // operand text (tokens joined by one blank); auto: the result var
	Toks   []string `json:"toks,omitempty"`   // auto: the command as tokens (name, argument tokens, commas)
	Form   string   `json:"form,omitempty"`   // bare | not | cmp
	Op     string   `json:"op,omitempty"`     // == != < <= > >=
	Val    string   `json:"val,omitempty"`    // comparison value (tokens joined by one blank) or TRUE/FALSE
	Strict bool     `json:"strict,omitempty"` // value(...) form
	Inl    []Inline `json:"inl,omitempty"`    // auto: inline text / moves() arguments (@inlN tokens)
	RawVal string   `json:"rawval,omitempty"` // emitter-only mode: the comparison value exactly as the parser stored it
}

// Arm is one if / elif arm.
type Arm struct {
	Cond *Expr  `json:"cond"`
	Body []Stmt `json:"body"`
}

// Case is one switch case.
type Case struct {
	IsDef bool   `json:"isdef"`
	Val   string `json:"val"`
	Body  []Stmt `json:"body"`
}

// Stmt is a statement inside a script body.
type Stmt struct {
	K string `json:"k"` // cmd label if while dowhile switch break continue
	// cmd
	Toks []string `json:"toks,omitempty"`
	// label
	Name string `json:"name,omitempty"`
	G    bool   `json:"g,omitempty"`
	LMod bool   `json:"lmod,omitempty"` // written with an explicit (local) modifier
	// if
	Arms    []Arm  `json:"arms,omitempty"`
	Els     []Stmt `json:"els,omitempty"`
	HasElse bool   `json:"haselse,omitempty"`
	// while / dowhile
	Cond    *Expr  `json:"cond,omitempty"`
	HasCond bool   `json:"hascond,omitempty"`
	Body    []Stmt `json:"body,omitempty"`
	// switch
	V     string   `json:"v,omitempty"`   // switched var (auto: result var)
	Pre   []string `json:"pre,omitempty"` // auto: command tokens
	Cases []Case   `json:"cases,omitempty"`
	// inline data of a cmd (tokens "@inl<k>" in Toks refer to Inl[k])
	Inl    []Inline `json:"inl,omitempty"`
	PreInl []Inline `json:"preinl,omitempty"`
	// poryswitch statement: V is the switch name
	PCases []PCase `json:"pcases,omitempty"`
	// transient: index of the statement's first piece / its source line (set by the renderer / layout)
	PI   int `json:"-"`
	Line int `json:"-"`
}

// PCase is one case of a poryswitch statement.
type PCase struct {
	Val   string `json:"val"`
	Brace bool   `json:"brace"`
	Body  []Stmt `json:"body"`
}

// Script is one script statement.
type Script struct {
	Name  string `json:"name"`
	Scope string `json:"scope,omitempty"` // "" | global | local
	Body  []Stmt `json:"body"`
}

// Prog is a file made of scripts only (the control-flow families).
type Prog struct {
	Scripts []Script `json:"scripts"`
}

// ---------------------------------------------------------------------------
// Rendering to source text.

// Style controls the pretty printer.  All choices are syntactic.
type Style struct {
	R          *Rand
	Parens     bool // add redundant parentheses in conditions
	Layout     int  // 0 = one statement per line, 1 = everything on few lines, 2 = random breaks
	EmptyParen bool // write "cmd()" for argument-less commands sometimes
}

func renderCmdToks(toks []string, emptyParen bool) string {
	w := &pw{}
	w.cmdToks(toks, nil, "", emptyParen)
	return Layout(w.ps, 1, nil)
}

// prec: 1 = or, 2 = and, 3 = unary/leaf
func exprPrec(e *Expr) int {
	switch e.K {
	case "or":
		return 1
	case "and":
		return 2
	}
	return 3
}

// RenderProg renders a scripts-only program.
func RenderProg(p *Prog, st Style) string {
	src, _ := RenderFile(ProgFile(p), st)
	return src
}

// ---------------------------------------------------------------------------
// Flattening to node tables (purely structural).

// FNode is one row of the statement/block table N of PoryLang.
type FNode map[string]interface{}

// Flat is the table form of a program.
type Flat struct {
	N       []FNode                `json:"N"`
	E       []FNode                `json:"E"`
	Scripts []FNode                `json:"scripts"` // [name, root]
	ULab    map[string]interface{} `json:"ulab"`    // label name -> first label node (plus "@" -> 0 so it is never empty)
	SRoot   map[string]interface{} `json:"sroot"`   // script name -> root block
}

type flattener struct {
	f *Flat
}

func (fl *flattener) newN(n FNode) int {
	fl.f.N = append(fl.f.N, n)
	return len(fl.f.N)
}

func (fl *flattener) newE(n FNode) int {
	fl.f.E = append(fl.f.E, n)
	return len(fl.f.E)
}

func rawOr(a, b string) string {
	if a != "" {
		return a
	}
	return b
}

func strs(a []string) []string {
	if a == nil {
		return []string{}
	}
	return a
}

func (fl *flattener) expr(e *Expr, par, dir int) int {
	switch e.K {
	case "leaf":
		return fl.newE(FNode{"k": "leaf", "par": par, "dir": dir, "typ": e.Typ, "opnd": e.Opnd,
			"toks": strs(e.Toks), "form": e.Form, "op": e.Op, "val": e.Val, "strict": e.Strict,
			"multi": strings.Contains(e.Val, " "), "opndtoks": strs(strings.Fields(e.Opnd)), "rawvaltoks": strs(strings.Fields(rawOr(e.RawVal, e.Val)))})
	case "not":
		id := fl.newE(FNode{"k": "not", "par": par, "dir": dir})
		fl.f.E[id-1]["e"] = fl.expr(e.E, id, 1)
		return id
	case "and", "or":
		id := fl.newE(FNode{"k": e.K, "par": par, "dir": dir})
		fl.f.E[id-1]["l"] = fl.expr(e.L, id, 1)
		fl.f.E[id-1]["r"] = fl.expr(e.R, id, 2)
		return id
	}
	panic("flatten: unknown expression kind " + e.K)
}

// block creates a block node owned by statement `owner` (0 = script root).
func (fl *flattener) block(body []Stmt, owner int, script int) int {
	id := fl.newN(FNode{"k": "block", "par": owner, "first": 0, "script": script, "len": len(body)})
	prev := 0
	for i := range body {
		sid := fl.stmt(&body[i], id, script)
		if prev == 0 {
			fl.f.N[id-1]["first"] = sid
		} else {
			fl.f.N[prev-1]["nxt"] = sid
		}
		prev = sid
	}
	return id
}

func (fl *flattener) stmt(s *Stmt, par int, script int) int {
	switch s.K {
	case "cmd":
		return fl.newN(FNode{"k": "cmd", "par": par, "nxt": 0, "toks": strs(s.Toks)})
	case "label":
		id := fl.newN(FNode{"k": "label", "par": par, "nxt": 0, "name": s.Name, "g": s.G})
		if _, ok := fl.f.ULab[s.Name]; !ok {
			fl.f.ULab[s.Name] = id
		}
		return id
	case "break", "continue":
		return fl.newN(FNode{"k": s.K, "par": par, "nxt": 0, "line": s.Line})
	case "if":
		id := fl.newN(FNode{"k": "if", "par": par, "nxt": 0, "els": 0})
		arms := []FNode{}
		for i := range s.Arms {
			c := fl.expr(s.Arms[i].Cond, 0, 0)
			b := fl.block(s.Arms[i].Body, id, script)
			arms = append(arms, FNode{"cond": c, "body": b})
		}
		fl.f.N[id-1]["arms"] = arms
		if s.HasElse {
			fl.f.N[id-1]["els"] = fl.block(s.Els, id, script)
		}
		return id
	case "while":
		id := fl.newN(FNode{"k": "while", "par": par, "nxt": 0, "cond": 0})
		if s.HasCond {
			fl.f.N[id-1]["cond"] = fl.expr(s.Cond, 0, 0)
		}
		fl.f.N[id-1]["body"] = fl.block(s.Body, id, script)
		return id
	case "dowhile":
		id := fl.newN(FNode{"k": "dowhile", "par": par, "nxt": 0})
		fl.f.N[id-1]["body"] = fl.block(s.Body, id, script)
		fl.f.N[id-1]["cond"] = fl.expr(s.Cond, 0, 0)
		return id
	case "switch":
		id := fl.newN(FNode{"k": "switch", "par": par, "nxt": 0, "v": s.V, "pre": strs(s.Pre), "vtoks": strs(strings.Fields(s.V))})
		cases := []FNode{}
		for i := range s.Cases {
			b := fl.block(s.Cases[i].Body, id, script)
			cases = append(cases, FNode{"isdef": s.Cases[i].IsDef, "val": s.Cases[i].Val, "body": b, "n": len(s.Cases[i].Body),
				"valtoks": strs(strings.Fields(s.Cases[i].Val))})
		}
		fl.f.N[id-1]["cases"] = cases
		return id
	}
	panic("flatten: unknown statement kind " + s.K)
}

// Flatten turns a program into the tables PoryLang reads.
func Flatten(p *Prog) *Flat {
	f := &Flat{N: []FNode{}, E: []FNode{}, Scripts: []FNode{},
		ULab: map[string]interface{}{"@": 0}, SRoot: map[string]interface{}{"@": 0}}
	fl := &flattener{f: f}
	for i := range p.Scripts {
		root := fl.block(p.Scripts[i].Body, 0, i+1)
		f.Scripts = append(f.Scripts, FNode{"name": p.Scripts[i].Name, "root": root})
		if _, ok := f.SRoot[p.Scripts[i].Name]; !ok {
			f.SRoot[p.Scripts[i].Name] = root
		}
	}
	// TLC cannot read an empty JSON array as a sequence of records it later
	// indexes, but it never indexes an empty one either; keep E non-empty so
	// the field always is a sequence.
	if len(f.E) == 0 {
		f.E = append(f.E, FNode{"k": "none", "par": 0, "dir": 0})
	}
	return f
}

// walkStmts calls fn on every statement of a body, depth first.
func walkStmts(body []Stmt, fn func(*Stmt)) {
	for i := range body {
		s := &body[i]
		fn(s)
		switch s.K {
		case "if":
			for j := range s.Arms {
				walkStmts(s.Arms[j].Body, fn)
			}
			walkStmts(s.Els, fn)
		case "while", "dowhile":
			walkStmts(s.Body, fn)
		case "switch":
			for j := range s.Cases {
				walkStmts(s.Cases[j].Body, fn)
			}
		}
	}
}

func walkExpr(e *Expr, fn func(*Expr)) {
	if e == nil {
		return
	}
	fn(e)
	walkExpr(e.L, fn)
	walkExpr(e.R, fn)
	walkExpr(e.E, fn)
}

// UserLabels returns the label names written in a script body.
func UserLabels(body []Stmt) []string {
	var out []string
	walkStmts(body, func(s *Stmt) {
		if s.K == "label" {
			out = append(out, s.Name)
		}
	})
	return out
}

func (p *Prog) String() string { return fmt.Sprintf("%d scripts", len(p.Scripts)) }
