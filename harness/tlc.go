package main

// Driving TLC.  Every run happens in its own scratch directory under
// /verif/.work with its own -metadir, under a wall-clock limit; the directory
// is removed afterwards.

import (
	"bytes"
	"context"
	"encoding/json"
	"fmt"
	"os"
	"os/exec"
	"path/filepath"
	"regexp"
	"strconv"
	"strings"
	"time"
	"unicode/utf8"
)

const (
	tlaJar  = "/opt/veriftools/tla/tla2tools.jar"
	tlaDeps = "/opt/veriftools/tla/CommunityModules-deps.jar"
)

var verifRoot = "/verif"

// TLCJob describes one TLC run.
type TLCJob struct {
	Module   string            // spec/<Module>.tla
	Cfg      string            // spec/<Cfg> (file name of the .cfg)
	Data     map[string][]byte // extra files (ndjson) written next to the spec
	Workers  int
	Timeout  time.Duration
	Args     []string // extra TLC arguments
	HeapGB   int
	KeepDir  bool
	DFS      bool // use the depth-first state queue (trace validation with branching)
	Simulate string
	ReadBack []string // files to read back from the scratch dir after the run
}

// TLCResult is the parsed outcome.
type TLCResult struct {
	Output    string
	Generated int64
	Distinct  int64
	Left      int64
	Depth     int64
	Errors    []string // "Error:" lines
	TimedOut  bool
	ExitCode  int
	Dir       string
	Wall      time.Duration
	Finished  bool // saw the completion line
	Files     map[string][]byte
}

var (
	reStates = regexp.MustCompile(`(\d+) states generated, (\d+) distinct states found, (\d+) states left on queue`)
	reDepth  = regexp.MustCompile(`The depth of the complete state graph search is (\d+)`)
)

var scratchSeq int

func newScratch(tag string) (string, error) {
	scratchSeq++
	d := filepath.Join(verifRoot, ".work", fmt.Sprintf("%s.%d.%d", tag, os.Getpid(), scratchSeq))
	if err := os.MkdirAll(d, 0o755); err != nil {
		return "", err
	}
	return d, nil
}

// RunTLC copies the spec directory into a scratch dir and runs TLC there.
func RunTLC(tag string, job TLCJob) (*TLCResult, error) {
	dir, err := newScratch(tag)
	if err != nil {
		return nil, err
	}
	if !job.KeepDir {
		defer os.RemoveAll(dir)
	}
	specs, _ := filepath.Glob(filepath.Join(verifRoot, "spec", "*.tla"))
	cfgs, _ := filepath.Glob(filepath.Join(verifRoot, "spec", "*.cfg"))
	for _, f := range append(specs, cfgs...) {
		b, err := os.ReadFile(f)
		if err != nil {
			return nil, err
		}
		if err := os.WriteFile(filepath.Join(dir, filepath.Base(f)), b, 0o644); err != nil {
			return nil, err
		}
	}
	for name, b := range job.Data {
		if err := os.WriteFile(filepath.Join(dir, name), b, 0o644); err != nil {
			return nil, err
		}
	}
	if job.Workers <= 0 {
		job.Workers = 8
	}
	if job.Timeout <= 0 {
		job.Timeout = 10 * time.Minute
	}
	if job.HeapGB <= 0 {
		job.HeapGB = 8
	}
	// (java.io.tmpdir: TLC unpacks its standard modules into a fresh temporary directory on every
	// start and never removes it; inside the scratch directory it goes away with it)
	os.MkdirAll(filepath.Join(dir, "tmp"), 0o755)
	args := []string{"-XX:+UseParallelGC", "-Xss256m", fmt.Sprintf("-Xmx%dg", job.HeapGB), "-Djava.io.tmpdir=" + filepath.Join(dir, "tmp")}
	if job.DFS {
		args = append(args, "-Dtlc2.tool.queue.IStateQueue=StateDeque")
	}
	args = append(args, "-cp", tlaJar+":"+tlaDeps, "tlc2.TLC",
		"-workers", strconv.Itoa(job.Workers), "-metadir", filepath.Join(dir, "meta"),
		"-config", job.Cfg)
	args = append(args, job.Args...)
	args = append(args, job.Module+".tla")
	ctx, cancel := context.WithTimeout(context.Background(), job.Timeout)
	defer cancel()
	cmd := exec.CommandContext(ctx, "java", args...)
	cmd.Dir = dir
	var out bytes.Buffer
	cmd.Stdout = &out
	cmd.Stderr = &out
	t0 := time.Now()
	runErr := cmd.Run()
	res := &TLCResult{Output: out.String(), Dir: dir, Wall: time.Since(t0)}
	if ctx.Err() == context.DeadlineExceeded {
		res.TimedOut = true
	}
	if runErr != nil {
		if ee, ok := runErr.(*exec.ExitError); ok {
			res.ExitCode = ee.ExitCode()
		} else {
			res.ExitCode = -1
		}
	}
	res.Files = map[string][]byte{}
	for _, f := range job.ReadBack {
		if b, err := os.ReadFile(filepath.Join(dir, f)); err == nil {
			res.Files[f] = b
		}
	}
	ms := reStates.FindAllStringSubmatch(res.Output, -1)
	if len(ms) > 0 {
		m := ms[len(ms)-1]
		res.Generated, _ = strconv.ParseInt(m[1], 10, 64)
		res.Distinct, _ = strconv.ParseInt(m[2], 10, 64)
		res.Left, _ = strconv.ParseInt(m[3], 10, 64)
		res.Finished = true
	}
	if m := reDepth.FindStringSubmatch(res.Output); m != nil {
		res.Depth, _ = strconv.ParseInt(m[1], 10, 64)
	}
	for _, ln := range strings.Split(res.Output, "\n") {
		if strings.HasPrefix(ln, "Error:") || strings.Contains(ln, "StackOverflowError") || strings.Contains(ln, "OutOfMemoryError") {
			res.Errors = append(res.Errors, ln)
		}
	}
	return res, nil
}

// Clean reports whether the run explored its whole state space without any
// TLC error.
func (r *TLCResult) Clean() bool {
	return r.Finished && !r.TimedOut && len(r.Errors) == 0 && r.Left == 0
}

// ---------------------------------------------------------------------------
// JSON for TLC: ASCII only.

// asciiEscape replaces every non-ASCII rune (and NUL / other control bytes) of
// s by the text \u{hex}, because TLC's strings mangle non-ASCII bytes.
func asciiEscape(s string) string {
	ok := true
	for i := 0; i < len(s); i++ {
		if s[i] >= 0x7f || (s[i] < 0x20 && s[i] != '\n' && s[i] != '\t' && s[i] != '\r') {
			ok = false
			break
		}
	}
	if ok {
		return s
	}
	var sb strings.Builder
	for len(s) > 0 {
		r, n := utf8.DecodeRuneInString(s)
		if r == utf8.RuneError && n == 1 {
			fmt.Fprintf(&sb, `\x{%02x}`, s[0])
		} else if r >= 0x7f || (r < 0x20 && r != '\n' && r != '\t' && r != '\r') {
			fmt.Fprintf(&sb, `\u{%x}`, r)
		} else {
			sb.WriteRune(r)
		}
		s = s[n:]
	}
	return sb.String()
}

func asciiValue(v interface{}) interface{} {
	switch x := v.(type) {
	case string:
		return asciiEscape(x)
	case []string:
		out := make([]interface{}, len(x))
		for i := range x {
			out[i] = asciiEscape(x[i])
		}
		return out
	case []interface{}:
		out := make([]interface{}, len(x))
		for i := range x {
			out[i] = asciiValue(x[i])
		}
		return out
	case map[string]interface{}:
		out := make(map[string]interface{}, len(x))
		for k, e := range x {
			out[asciiEscape(k)] = asciiValue(e)
		}
		return out
	case FNode:
		return asciiValue(map[string]interface{}(x))
	case AsmLine:
		return asciiValue(map[string]interface{}(x))
	case []FNode:
		out := make([]interface{}, len(x))
		for i := range x {
			out[i] = asciiValue(x[i])
		}
		return out
	case []AsmLine:
		out := make([]interface{}, len(x))
		for i := range x {
			out[i] = asciiValue(x[i])
		}
		return out
	case []map[string]interface{}:
		out := make([]interface{}, len(x))
		for i := range x {
			out[i] = asciiValue(x[i])
		}
		return out
	}
	return v
}

// toTLCJSON marshals v (through a generic round trip) with all strings
// ASCII-escaped and without HTML escaping.
func toTLCJSON(v interface{}) ([]byte, error) {
	b, err := json.Marshal(v)
	if err != nil {
		return nil, err
	}
	var g interface{}
	dec := json.NewDecoder(bytes.NewReader(b))
	dec.UseNumber()
	if err := dec.Decode(&g); err != nil {
		return nil, err
	}
	g = asciiValue(g)
	var buf bytes.Buffer
	enc := json.NewEncoder(&buf)
	enc.SetEscapeHTML(false)
	if err := enc.Encode(g); err != nil {
		return nil, err
	}
	return bytes.TrimRight(buf.Bytes(), "\n"), nil
}

// NDJSON builds an ndjson file from records.
type NDJSON struct {
	buf bytes.Buffer
	n   int
}

func (w *NDJSON) Add(v interface{}) error {
	b, err := toTLCJSON(v)
	if err != nil {
		return err
	}
	w.buf.Write(b)
	w.buf.WriteByte('\n')
	w.n++
	return nil
}

func (w *NDJSON) Bytes() []byte { return w.buf.Bytes() }
func (w *NDJSON) Len() int      { return w.n }
