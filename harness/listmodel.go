package main

// ./check listmodel : spec/ListModel.tla (movement and mart bodies: steps, multipliers, commas,
// the terminator rule) against the real compiler on EVERY token string of length <= 5 (6) over
// { a step_end|ITEM_NONE * 3 0 10000 0x2 , ( } as a movement body and as a mart body.
// Implementation-level, not a property check.

import (
	"fmt"
	"strings"
	"time"
)

func init() {
	register("listmodel", "other", checkListModel)
}

var listAlphabet = []string{"a", "TERM", "*", "3", "0", ",", "10000", "0x2", "("}

func checkListModel(c *Ctx) {
	maxLen := 5
	if !c.Quick() {
		maxLen = 6
	}
	fam, ok := cachedGenModule(c, "GenChars", map[string]int{"MaxLen": maxLen, "NSym": len(listAlphabet)}, "chars.ndjson")
	if !ok {
		return
	}
	var nd NDJSON
	srcOf := map[string]string{}
	n, inBatch, drift, accepted := 0, 0, 0, 0
	var states int64
	failed := false
	flush := func() {
		if inBatch == 0 || failed {
			return
		}
		res, err := RunTLC("listall", TLCJob{Module: "ListAll", Cfg: "ListAll.cfg", Data: map[string][]byte{"listall.ndjson": nd.Bytes()},
			Workers: c.Workers, Timeout: 30 * time.Minute, HeapGB: 10})
		if err != nil || !res.Clean() {
			c.Fatal("ListAll run failed: %v\n%s", err, tail(res.Output, 3000))
			failed = true
			return
		}
		for _, m := range reCaseFlag.FindAllStringSubmatch(res.Output, -1) {
			drift++
			if drift <= 8 {
				fmt.Printf("DRIFT list model: %s %q  model: %s\n", m[3], srcOf[m[3]], strings.Join(strings.Fields(m[4]), " "))
			}
		}
		states += res.Distinct
		nd = NDJSON{}
		inBatch = 0
	}
	for i, ln := range fam["chars.ndjson"] {
		var w []int
		if jsonUnmarshal([]byte(ln), &w) != nil {
			c.Fatal("bad GenChars line")
			return
		}
		for _, kind := range []string{"movement", "mart"} {
			term := "step_end"
			if kind == "mart" {
				term = "ITEM_NONE"
			}
			toks := make([]string, len(w))
			for k, x := range w {
				toks[k] = listAlphabet[x-1]
				if toks[k] == "TERM" {
					toks[k] = term
				}
			}
			src := kind + " M {\n    " + strings.Join(toks, " ") + "\n}\n"
			res := Compile(src, Opts{Optimize: i%2 == 0})
			lines := []string{}
			isErr := res.Err != nil || res.Panic != ""
			if !isErr {
				accepted++
				seen := false
				for _, l := range strings.Split(strings.TrimRight(res.Out, "\n"), "\n") {
					if l == "M:" {
						seen = true
						continue
					}
					if seen {
						lines = append(lines, l)
					} else if l != "\t.align 2" {
						lines = append(lines, "<before label> "+l)
					}
				}
				if !seen {
					lines = append(lines, "<no label>")
				}
			}
			id := fmt.Sprintf("l%d%s", i, kind[:2])
			srcOf[id] = kind + ": " + strings.Join(toks, " ")
			nd.Add(map[string]interface{}{"id": id, "kind": kind, "toks": toks, "err": isErr, "lines": lines})
			n++
			inBatch++
		}
		if inBatch >= 100000 {
			flush()
		}
	}
	flush()
	if failed {
		return
	}
	msg := fmt.Sprintf("listmodel: %d bodies (every token string of length <= %d over %d tokens, as a movement and as a mart), %d accepted; accept/reject or emitted lines differ between model and real compiler: %d", n, maxLen, len(listAlphabet), accepted, drift)
	fmt.Println(msg)
	c.CovSet("explanation", msg)
	c.Cov("evaluations", int64(n))
	c.Cov("distinct_nontrivial", int64(accepted))
	c.Cov("states", states)
	if drift > 0 {
		c.Fatal("list model drift: %d bodies", drift)
	}
}
