package main

import (
	"fmt"
	"strings"
	"time"
)

func init() {
	register("C20", "exploration", checkC20)
}

// blocksOf lists pointers to every block (statement list) of a body.
func blocksOf(body *[]Stmt, out *[]*[]Stmt) {
	*out = append(*out, body)
	for i := range *body {
		s := &(*body)[i]
		switch s.K {
		case "if":
			for j := range s.Arms {
				blocksOf(&s.Arms[j].Body, out)
			}
			if s.HasElse {
				blocksOf(&s.Els, out)
			}
		case "while", "dowhile":
			blocksOf(&s.Body, out)
		case "switch":
			for j := range s.Cases {
				blocksOf(&s.Cases[j].Body, out)
			}
		}
	}
}

func setLines(body []Stmt, ps []Piece) {
	walkStmts(body, func(s *Stmt) {
		if s.K == "break" || s.K == "continue" {
			s.Line = ps[s.PI].Line
		}
	})
}

func errLine(res Result) int {
	if res.PErr != nil {
		return res.PErr.LineNumberStart
	}
	return 0
}

func checkC20(c *Ctx) {
	r := NewRand(c.Seed*8123 + 20)
	every, nrandom := 4, 60
	if !c.Quick() {
		every, nrandom = 1, 1500
	}
	fam, ok := cachedGenModule(c, "GenCtl", map[string]int{"Level": 2}, "one.ndjson", "nest.ndjson")
	if !ok {
		return
	}
	bases := ctlPrograms(c, fam["one.ndjson"], "j", every, c.Seed)
	bases = append(bases, ctlPrograms(c, fam["nest.ndjson"], "jn", every*40, c.Seed)...)
	cfg := GenCfg{MaxDepth: 3, MaxStmts: 3, MaxLeaves: 2, Switches: true, Gotos: true}
	for i := 0; i < nrandom; i++ {
		bases = append(bases, GenProg(r, cfg, fmt.Sprintf("J%d_", i)))
	}
	var recs []map[string]interface{}
	srcOf, errOf := map[string]string{}, map[string]string{}
	nctl := 0
	addCtl := func(id string, p *Prog, layout int) {
		f := ProgFile(p)
		ps := FilePieces(f, Style{R: r})
		src := Layout(ps, layout, r)
		for i := range f.Tops {
			setLines(f.Tops[i].Body, ps)
		}
		res := Compile(src, Opts{Optimize: true})
		if res.Panic != "" || res.TimedOut {
			c.Violate(Violation{What: "compiler panicked or hung", Source: src, Detail: map[string]interface{}{"panic": res.Panic}})
			return
		}
		p2 := &Prog{}
		for i := range f.Tops {
			p2.Scripts = append(p2.Scripts, Script{Name: f.Tops[i].Name, Body: f.Tops[i].Body})
		}
		flat := Flatten(p2)
		srcOf[id], errOf[id] = src, errText(res.Err)
		recs = append(recs, map[string]interface{}{"id": id, "kind": "ctl", "N": flat.N, "E": flat.E, "ulab": flat.ULab, "sroot": flat.SRoot,
			"err": res.Err != nil, "eline": errLine(res)})
		nctl++
		if nctl == 5 || nctl == 900 {
			c.Sample(map[string]interface{}{"source": src, "result": errText(res.Err)})
		}
	}
	for bi, base := range bases {
		// every insertion point of the first script x {break, continue}
		var blocks []*[]Stmt
		probe := cloneProg(base)
		blocksOf(&probe.Scripts[0].Body, &blocks)
		nb := len(blocks)
		for b := 0; b < nb; b++ {
			nidx := len(*blocks[b]) + 1
			for idx := 0; idx < nidx; idx++ {
				for _, kw := range []string{"break", "continue"} {
					if (bi+b+idx)%2 == 0 && kw == "break" && c.Quick() {
						continue // quick tier: alternate
					}
					p := cloneProg(base)
					var bl []*[]Stmt
					blocksOf(&p.Scripts[0].Body, &bl)
					blk := bl[b]
					ins := Stmt{K: kw}
					nw := append([]Stmt{}, (*blk)[:idx]...)
					nw = append(nw, ins)
					nw = append(nw, (*blk)[idx:]...)
					*blk = nw
					addCtl(fmt.Sprintf("c%d.%d.%d.%s", bi, b, idx, kw), p, (bi+b+idx)%3)
				}
			}
		}
	}

	// ---- the other rules ---------------------------------------------------------
	nrule := 0
	addRule := func(id, kind string, lines []string, lo, hi int, facts map[string]interface{}) {
		// random blank lines / comments before each line shift the numbers
		var sb strings.Builder
		cur := 1
		lineMap := map[int]int{}
		for i, ln := range lines {
			for r.Chance(1, 5) {
				sb.WriteString([]string{"\n", "# note\n", "   // c\n"}[r.Intn(3)])
				cur++
			}
			lineMap[i+1] = cur
			sb.WriteString(ln + "\n")
			cur++
		}
		src := sb.String()
		res := Compile(src, Opts{Optimize: nrule%2 == 0})
		if res.Panic != "" || res.TimedOut {
			c.Violate(Violation{What: "compiler panicked or hung", Source: src, Detail: map[string]interface{}{"panic": res.Panic}})
			return
		}
		rec := map[string]interface{}{"id": id, "kind": kind, "err": res.Err != nil, "eline": errLine(res), "lo": lineMap[lo], "hi": lineMap[hi],
			"casevals": []string{}, "ndefaults": 0, "constnames": []string{}, "name": "", "generated": []string{}}
		for k, v := range facts {
			rec[k] = v
		}
		srcOf[id], errOf[id] = src, errText(res.Err)
		recs = append(recs, rec)
		nrule++
	}
	wrap := func(depth int, inner []string) ([]string, int) {
		// nest the statements inside loops / ifs; returns lines and the offset of inner's first line
		pre := []string{"script Host {", "    before"}
		post := []string{"    after", "}"}
		for d := 0; d < depth; d++ {
			pre = append(pre, []string{"    while (flag(W)) {", "    if (var(V) == 1) {", "    do {"}[d%3])
			post = append([]string{[]string{"    }", "    }", "    } while (flag(D))"}[d%3]}, post...)
		}
		all := append(append(append([]string{}, pre...), inner...), post...)
		return all, len(pre)
	}
	nreps := 6
	if !c.Quick() {
		nreps = 60
	}
	for rep := 0; rep < nreps; rep++ {
		depth := rep % 4
		// duplicate case values (single- and multi-token, also equal after constant substitution), and the legal twin
		for v, variant := range [][]string{{"1", "2", "1"}, {"A + 1", "B", "A + 1"}, {"K", "3", "7"}, {"1", "2", "3"}, {"A + 1", "A + 2", "A"}} {
			inner := []string{"    switch (var(VAR_S)) {", "    case " + variant[0] + ":", "        one", "    case " + variant[1] + ":", "    case " + variant[2] + ":", "        three", "    }"}
			lines, off := wrap(depth, inner)
			vals := append([]string{}, variant...)
			if v == 2 {
				lines = append([]string{"const K = 7"}, lines...)
				off++
				vals = []string{"7", "3", "7"}
			}
			addRule(fmt.Sprintf("dup%d.%d", rep, v), "dupcase", lines, off+5, off+5, map[string]interface{}{"casevals": vals})
		}
		// two defaults at various positions, and one default
		for v, order := range [][]string{{"default", "case 1", "default"}, {"case 1", "default", "default"}, {"default", "default", "case 1"}, {"case 1", "default", "case 2"}} {
			inner := []string{"    switch (var(VAR_S)) {"}
			nd, second := 0, 0
			for k, o := range order {
				inner = append(inner, "    "+o+":", fmt.Sprintf("        body%d", k))
				if o == "default" {
					nd++
					if nd == 2 {
						second = len(inner) - 1
					}
				}
			}
			inner = append(inner, "    }")
			lines, off := wrap(depth, inner)
			if second == 0 {
				second = 1
			}
			addRule(fmt.Sprintf("def%d.%d", rep, v), "twodefault", lines, off+second, off+second, map[string]interface{}{"ndefaults": nd})
		}
		// a redefined constant (directly, or after other statements), and distinct constants
		for v, names := range [][]string{{"A", "A"}, {"A", "B", "A"}, {"A", "B", "C"}} {
			var lines []string
			lo := 0
			seen := map[string]bool{}
			for k, n := range names {
				if seen[n] && lo == 0 {
					lo = len(lines) + 1
				}
				seen[n] = true
				lines = append(lines, fmt.Sprintf("const %s = %d", n, k+1))
				if rep%2 == 0 {
					lines = append(lines, fmt.Sprintf("script S%d {", k), "    usec("+n+")", "}")
				}
			}
			if lo == 0 {
				lo = 1
			}
			lines = append(lines, "script Last {", "    lastc", "}")
			addRule(fmt.Sprintf("const%d.%d", rep, v), "redefconst", lines, lo, lo, map[string]interface{}{"constnames": names})
		}
		// names equal to generated ones
		{
			// text statement named like a hoisted text of a script (Host has one or two inline texts)
			for v, name := range []string{"Host_Text_0", "Host_Text_1", "Host_Text_2", "Other_Text_0"} {
				lines := []string{"script Host {", "    msgbox(\"one\")", "    msgbox(\"two\")", "}", "text " + name + " {", "    \"mine\"", "}"}
				if rep%2 == 1 {
					lines = []string{"text " + name + " {", "    \"mine\"", "}", "script Host {", "    msgbox(\"one\")", "    msgbox(\"two\")", "}"}
					addRule(fmt.Sprintf("txt%d.%d", rep, v), "nameclash", lines, 1, 3, map[string]interface{}{"name": name, "generated": []string{"Host_Text_0", "Host_Text_1"}})
				} else {
					addRule(fmt.Sprintf("txt%d.%d", rep, v), "nameclash", lines, 5, 7, map[string]interface{}{"name": name, "generated": []string{"Host_Text_0", "Host_Text_1"}})
				}
			}
			for v, name := range []string{"Host_Movement_0", "Host_Movement_1"} {
				lines := []string{"movement " + name + " {", "    walk_up", "}", "script Host {", "    applymovement(1, moves(walk_down))", "}"}
				addRule(fmt.Sprintf("mov%d.%d", rep, v), "nameclash", lines, 1, 3, map[string]interface{}{"name": name, "generated": []string{"Host_Movement_0"}})
			}
			// script label equal to a generated sub-label of that script (taken from the real output of the
			// label-free script) or to a text label (generated or written), in a script statement, in an
			// inline map script and in an inline script of a map script table
			body := []string{"    first", "    if (flag(A)) {", "        inif", "    }", "    while (var(V) < 3) {", "        inloop", "    }", "    msgbox(\"txt\")", "    lastcmd"}
			hosts := []struct {
				pre, post []string
				name      string
			}{
				{[]string{"script Host {"}, []string{"}"}, "Host"},
				{[]string{"mapscripts M {", "MAP_SCRIPT_ON_LOAD {"}, []string{"}", "}"}, "M_MAP_SCRIPT_ON_LOAD"},
				{[]string{"mapscripts M {", "MAP_SCRIPT_ON_RESUME: Elsewhere", "MAP_SCRIPT_ON_FRAME_TABLE [", "VAR_T, 0: Other", "VAR_T, 1 {"}, []string{"}", "]", "}"}, "M_MAP_SCRIPT_ON_FRAME_TABLE_1"},
			}
			for hi, h := range hosts {

				host := append(append(append([]string{}, h.pre...), body...), h.post...)
				host = append(host, "text UserText {", "    \"u\"", "}")
				base := Compile(strings.Join(host, "\n")+"\n", Opts{Optimize: rep%2 == 0})
				gen := []string{h.name, "UserText"}
				if base.Err == nil {
					for _, ln := range ParseAsm(base.Out).Lines {
						if ln["k"] == "label" && strings.HasPrefix(ln["name"].(string), h.name) {
							gen = append(gen, ln["name"].(string))
						}
					}
				}
				cands := append(append([]string{}, gen...), h.name+"_99", "Fine", h.name+"_Text_7")
				np := len(h.pre)
				for v, name := range cands {
					ats := []int{np + 1, np + 3, np + 6, np + 9}
					if c.Quick() {
						ats = []int{ats[r.Intn(len(ats))]} // one random position per candidate and repetition
					}
					for _, at := range ats {
						lines := append([]string{}, host[:at]...)
						lines = append(lines, "    "+name+":")
						lines = append(lines, host[at:]...)
						addRule(fmt.Sprintf("lab%d.%d.%d.%d", rep, hi, v, at), "nameclash", lines, at+1, at+1, map[string]interface{}{"name": name, "generated": gen})
					}
				}
			}
		}
	}
	// the same rules in LARGE switches and scripts: a duplicate whose two occurrences are both late in a
	// switch of 12 / 20 / 40 cases (or early and late), and a user label equal to each generated label of a
	// script with dozens of chunks
	for _, n := range []int{12, 20, 40} {
		for _, pair := range [][2]int{{n - 3, n - 1}, {1, n - 1}, {n / 2, n/2 + 1}, {-1, -1}} {
			lines := []string{"script Big {", "    switch (var(VAR_S)) {"}
			vals := []string{}
			dupLine := 0
			for k := 0; k < n; k++ {
				v := fmt.Sprint(100 + k)
				if k == pair[1] {
					v = fmt.Sprint(100 + pair[0])
					dupLine = len(lines) + 1
				}
				vals = append(vals, v)
				lines = append(lines, "    case "+v+":", fmt.Sprintf("        c%d", k))
			}
			lines = append(lines, "    }", "}")
			if dupLine == 0 {
				dupLine = 1
			}
			addRule(fmt.Sprintf("bigdup%d.%d", n, pair[1]), "dupcase", lines, dupLine, dupLine, map[string]interface{}{"casevals": vals})
		}
	}
	for _, n := range []int{4, 12, 25} {
		var body []string
		for k := 0; k < n; k++ {
			body = append(body, fmt.Sprintf("    if (flag(F%d)) {", k), fmt.Sprintf("        t%d", k), "    }", fmt.Sprintf("    b%d", k))
		}
		host := append(append([]string{"script Big {"}, body...), "}")
		clean := Compile(strings.Join(host, "\n")+"\n", Opts{Optimize: n%2 == 0})
		gen := []string{"Big"}
		if clean.Err == nil {
			for _, ln := range ParseAsm(clean.Out).Lines {
				if ln["k"] == "label" && strings.HasPrefix(ln["name"].(string), "Big_") {
					gen = append(gen, ln["name"].(string))
				}
			}
		}
		for v, name := range append(append([]string{}, gen...), fmt.Sprintf("Big_%d", 4*n+7), "Fine") {
			at := 1 + 4*((v*7)%n) // before one of the ifs
			lines := append([]string{}, host[:at]...)
			lines = append(lines, "    "+name+":")
			lines = append(lines, host[at:]...)
			addRule(fmt.Sprintf("biglab%d.%d", n, v), "nameclash", lines, at+1, at+1, map[string]interface{}{"name": name, "generated": gen})
		}
	}
	var cli []CLICase
	for i, body := range []string{"script S {\n    foo\n    break\n}\n", "script S {\n    while (flag(A)) {\n        continue\n        foo\n    }\n}\n",
		"const A = 1\n\nconst A = 2\nscript S {\n}\n", "script S {\n    switch (var(V)) {\n    case 1: a\n    case 1: b\n    }\n}\n",
		"script S {\n    msgbox(\"x\")\n}\n\n\ntext S_Text_0 {\n    \"mine\"\n}\n"} {
		for k, lead := range []string{"", "\n", "\n\n\n# c\n", "\r\n\r\n", "  \n\t\n"} {
			cli = append(cli, CLICase{ID: fmt.Sprintf("cli%d.%d", i, k), Src: lead + body, Opts: Opts{Optimize: true}, Stdin: k%2 == 1})
		}
	}
	cliStates := cliCheck(c, cli, "rejection")
	// every small program with exactly one of the listed violations (StmtReject.tla over the macro-token
	// family of StmtModel.tla): rejected, and on the line of the offending token
	{
		maxLen, structMax := 4, 6
		if !c.Quick() {
			maxLen, structMax = 5, 7
		}
		var nd NDJSON
		desc := map[string]string{}
		inBatch, nfam, nviol := 0, 0, 0
		failed := false
		flush := func() {
			if inBatch == 0 || failed {
				return
			}
			res, err := RunTLC("stmtreject", TLCJob{Module: "StmtReject", Cfg: "StmtReject.cfg", Data: map[string][]byte{"stmtall.ndjson": nd.Bytes()},
				Workers: c.Workers, Timeout: 30 * time.Minute, HeapGB: 10})
			if err != nil || !res.Clean() {
				c.Fatal("StmtReject run failed: %v\n%s", err, tail(res.Output, 3000))
				failed = true
				return
			}
			for _, m := range reCaseFlag.FindAllStringSubmatch(res.Output, -1) {
				nviol++
				if nviol <= 10 {
					c.Violate(Violation{What: "a small program with exactly one violation (" + strings.Join(strings.Fields(m[4]), " ") + ") is not rejected on the line of the offending token",
						Source: desc[m[3]]})
				}
			}
			cliStates += res.Distinct
			nd = NDJSON{}
			inBatch = 0
		}
		stmtFamily(c, maxLen, structMax, func(id string, toks []string, isErr bool, eline int) {
			var texts []string
			for _, t := range toks[:len(toks)-1] {
				for _, m := range stmtMacros {
					if m.tok == t {
						texts = append(texts, m.text)
					}
				}
			}
			desc[id] = "script S {\n    " + strings.Join(texts, "\n    ") + "\n}\n"
			nd.Add(map[string]interface{}{"id": id, "toks": toks, "err": isErr, "eline": eline})
			nfam++
			inBatch++
			if inBatch >= 120000 {
				flush()
				for k := range desc {
					delete(desc, k)
				}
			}
		})
		flush()
		c.Cov("small_programs_with_one_violation_family", int64(nfam))
	}
	bad, states, ok := runPairCases(c, "Reject", "reject.ndjson", recs)
	states += cliStates
	if !ok {
		return
	}
	n := 0
	for id := range bad {
		n++
		if n > 30 {
			break
		}
		c.Violate(Violation{What: "an ill-formed program is not rejected at the offending line, or a well-formed one is rejected (" + id + ")", Source: srcOf[id],
			Detail: map[string]interface{}{"result": errOf[id]}})
	}
	c.Cov("evaluations", int64(len(recs)))
	c.Cov("distinct_nontrivial", int64(len(recs)))
	c.CovSet("rule", "break and continue inserted at every position of every block of the TLC-enumerated GenCtl programs and seeded programs (legal and illegal positions; the verdict per position comes from Reject.tla over the program's node table), and every other rule of the property with violating and non-violating twins at nesting depths 0-3 with shifted line numbers; a case is one program")
	c.Cov("control_flow_cases", int64(nctl))
	c.Cov("rule_cases", int64(nrule))
	c.Cov("states", states)
}

func cloneProg(p *Prog) *Prog {
	b, _ := jsonMarshal(p)
	var q Prog
	jsonUnmarshal(b, &q)
	for i := range q.Scripts {
		if q.Scripts[i].Body == nil {
			q.Scripts[i].Body = []Stmt{}
		}
		normalizeStmts(q.Scripts[i].Body)
	}
	return &q
}
