package main

// ./check stmtmodel : spec/StmtModel.tla (which statement sequences are accepted: nesting, break /
// continue scopes, switch entries) against the real compiler on EVERY macro-token string of length
// <= 4 (5).  Implementation-level, not a property check.

import (
	"fmt"
	"strings"
	"time"
)

func init() {
	register("stmtmodel", "other", checkStmtModel)
}

var stmtMacros = []struct{ tok, text string }{
	{"c", "cmd"}, {"if", "if (flag(A))"}, {"elif", "elif (flag(B))"}, {"else", "else"}, {"wh", "while (flag(C))"}, {"lp", "while"}, {"do", "do"},
	{"br", "break"}, {"co", "continue"}, {"sw", "switch (var(V))"}, {"c1", "case 1:"}, {"c2", "case 2:"}, {"df", "default:"}, {"{", "{"}, {"}", "}"},
}

// stmtFamily walks the macro-token family: every string of length <= maxLen, and the structured ones
// (balanced braces, every block opener directly followed by "{" except the "while (cond)" that ends a
// do...while) up to structMax (of length 8 every 8th).  Each string is compiled; each gets the tokens
// (with the script's closing brace), whether it was rejected and the line of the error.
func stmtFamily(c *Ctx, maxLen, structMax int, each func(id string, toks []string, isErr bool, eline int)) bool {
	fam, ok := cachedGenModule(c, "GenChars", map[string]int{"MaxLen": maxLen, "NSym": len(stmtMacros)}, "chars.ndjson")
	if !ok {
		return false
	}
	one := func(id string, seq []int, opt bool) {
		toks := make([]string, 0, len(seq)+1)
		var texts []string
		for _, x := range seq {
			toks = append(toks, stmtMacros[x].tok)
			texts = append(texts, stmtMacros[x].text)
		}
		toks = append(toks, "}")
		src := "script S {\n    " + strings.Join(texts, "\n    ") + "\n}\n"
		res := Compile(src, Opts{Optimize: opt})
		isErr := res.Err != nil || res.Panic != ""
		eline := 0
		if res.PErr != nil {
			eline = res.PErr.LineNumberStart
		}
		each(id, toks, isErr, eline)
	}
	for i, ln := range fam["chars.ndjson"] {
		var w []int
		if jsonUnmarshal([]byte(ln), &w) != nil {
			c.Fatal("bad GenChars line")
			return false
		}
		seq := make([]int, len(w))
		for k, x := range w {
			seq[k] = x - 1
		}
		one(fmt.Sprintf("m%d", i), seq, i%2 == 0)
	}
	openers := map[string]bool{"if": true, "elif": true, "else": true, "wh": true, "lp": true, "do": true, "sw": true}
	nstruct := 0
	var rec func(seq []int, depth int)
	rec = func(seq []int, depth int) {
		mustOpen := false
		if k := len(seq); k > 0 {
			last := stmtMacros[seq[k-1]].tok
			mustOpen = openers[last] && !(last == "wh" && k >= 2 && stmtMacros[seq[k-2]].tok == "}")
		}
		if depth == 0 && len(seq) > maxLen && !mustOpen {
			nstruct++
			if len(seq) < 8 || sampled(nstruct, c.Seed, 8) {
				one(fmt.Sprintf("s%d", nstruct), seq, nstruct%2 == 0)
			}
		}
		if len(seq) == structMax {
			return
		}
		for x, m := range stmtMacros {
			switch {
			case mustOpen && m.tok != "{":
				continue
			case m.tok == "{":
				if len(seq) == 0 || !openers[stmtMacros[seq[len(seq)-1]].tok] {
					continue
				}
				rec(append(append([]int{}, seq...), x), depth+1)
			case m.tok == "}":
				if depth > 0 {
					rec(append(append([]int{}, seq...), x), depth-1)
				}
			default:
				rec(append(append([]int{}, seq...), x), depth)
			}
		}
	}
	rec(nil, 0)
	return true
}

func checkStmtModel(c *Ctx) {
	maxLen, structMax := 4, 6
	if !c.Quick() {
		maxLen, structMax = 5, 8
	}
	var nd NDJSON
	srcOf := map[string]string{}
	n, inBatch, drift, accepted := 0, 0, 0, 0
	var states int64
	failed := false
	flush := func() {
		if inBatch == 0 || failed {
			return
		}
		res, err := RunTLC("stmtall", TLCJob{Module: "StmtAll", Cfg: "StmtAll.cfg", Data: map[string][]byte{"stmtall.ndjson": nd.Bytes()},
			Workers: c.Workers, Timeout: 30 * time.Minute, HeapGB: 10})
		if err != nil || !res.Clean() {
			c.Fatal("StmtAll run failed: %v\n%s", err, tail(res.Output, 3000))
			failed = true
			return
		}
		for _, m := range reCaseFlag.FindAllStringSubmatch(res.Output, -1) {
			drift++
			if drift <= 8 {
				fmt.Printf("DRIFT statement model: %s %q  model accepts: %s\n", m[3], srcOf[m[3]], strings.Join(strings.Fields(m[4]), " "))
			}
		}
		states += res.Distinct
		nd = NDJSON{}
		inBatch = 0
	}
	ok := stmtFamily(c, maxLen, structMax, func(id string, toks []string, isErr bool, eline int) {
		if !isErr {
			accepted++
		}
		srcOf[id] = strings.Join(toks, " ")
		nd.Add(map[string]interface{}{"id": id, "toks": toks, "err": isErr, "eline": eline})
		n++
		inBatch++
		if inBatch >= 120000 {
			flush()
		}
	})
	if !ok {
		return
	}
	flush()
	if failed {
		return
	}
	msg := fmt.Sprintf("stmtmodel: %d macro-token strings (all of length <= %d over %d, structured ones up to length %d), %d accepted by the compiler; accept/reject differs between model and real compiler: %d", n, maxLen, len(stmtMacros), structMax, accepted, drift)
	fmt.Println(msg)
	c.CovSet("explanation", msg)
	c.Cov("evaluations", int64(n))
	c.Cov("distinct_nontrivial", int64(n))
	c.Cov("states", states)
	if drift > 0 {
		c.Fatal("statement model drift: %d strings", drift)
	}
}
