package main

import (
	"errors"
	"fmt"
	"os"
	"regexp"
	"strings"
	"time"
)

func init() {
	register("C12", "translation_validation", checkC12)
}

func outLines(s string) []string {
	ls := strings.Split(s, "\n")
	for i := range ls {
		ls[i] = strings.TrimRight(ls[i], "\r")
	}
	return ls
}

// PairCase is a pair of real compilations whose outputs TLC compares.
type PairCase struct {
	ID       string
	Src1     string
	Src2     string
	Opts     Opts
	R1, R2   Result
	Wrappers []Wrapper
}

var reCaseFlag = regexp.MustCompile(`(?s)<<\s*"(DIVERGED|BUILDER)",\s*(\d+),\s*"([^"]+)"(.*?)>>`)

// runPairCases evaluates a pairing spec (Poryswitch / Constants / ...) on cases.
func runPairCases(c *Ctx, module, dataFile string, recs []map[string]interface{}) (map[string]string, int64, bool) {
	bad := map[string]string{}
	var states int64
	const batch = 3000
	for i := 0; i < len(recs); i += batch {
		j := i + batch
		if j > len(recs) {
			j = len(recs)
		}
		var nd NDJSON
		for _, r := range recs[i:j] {
			if err := nd.Add(r); err != nil {
				c.Fatal("encoding case: %v", err)
				return bad, states, false
			}
		}
		res, err := RunTLC(c.ID+".pairs", TLCJob{Module: module, Cfg: module + ".cfg", Data: map[string][]byte{dataFile: nd.Bytes()},
			Workers: c.Workers, Timeout: 20 * time.Minute, HeapGB: 8})
		if err != nil || !res.Clean() {
			c.Fatal("%s run failed: %v\n%s", module, err, tail(res.Output, 3000))
			return bad, states, false
		}
		states += res.Distinct
		for _, m := range reCaseFlag.FindAllStringSubmatch(res.Output, -1) {
			if m[1] == "BUILDER" {
				c.Fatal("the harness built case %s inconsistently with the spec", m[3])
				continue
			}
			bad[m[3]] = strings.Join(strings.Fields(m[1]+" "+m[4]), " ")
		}
	}
	return bad, states, true
}

func checkC12(c *Ctx) {
	n := 200
	if !c.Quick() {
		n = 15000
	}
	r := NewRand(c.Seed*6151 + 12)
	fc := FileCfg{MaxTops: 4, Inline: true, AutoInline: false, MapScripts: true,
		Ctl: GenCfg{MaxDepth: 2, MaxStmts: 3, MaxLeaves: 2, Switches: true}}
	var recs []map[string]interface{}
	cases := map[string]*PairCase{}
	nwrap := 0
	for i := 0; i < n; i++ {
		R, av := GenFile(r, fc, "")
		sw := map[string]string{"GAME": r.Pick([]string{"RUBY", "EMERALD", "SAPPHIRE"}), "LANG": r.Pick([]string{"EN", "DE", "FR"})}
		srcR, _ := RenderFile(R, Style{R: r, Layout: 0})
		o := Opts{Optimize: r.Chance(1, 2), AutoVar: av, Switches: sw}
		resR := Compile(srcR, o)
		if resR.Err != nil || resR.Panic != "" {
			c.Fatal("poryswitch-free reference program does not compile: %v %s\n%s", resR.Err, resR.Panic, srcR)
			return
		}
		for k := 0; k < 3; k++ {
			fail := k == 2 && r.Chance(1, 2)
			stmts, texts, lists := true, true, true
			if k == 1 {
				// concentrate on one position kind
				switch r.Intn(3) {
				case 0:
					texts, lists = false, false
				case 1:
					stmts, lists = false, false
				default:
					stmts, texts = false, false
				}
			}
			P, ws := DecorateFile(R, sw, r, stmts, texts, lists, fail)
			if len(ws) == 0 {
				continue
			}
			srcP, _ := RenderFile(P, Style{R: r, Layout: r.Intn(3)})
			resP := Compile(srcP, o)
			if resP.Panic != "" || resP.TimedOut {
				c.Violate(Violation{What: "compiler panicked or hung", Source: srcP, Opts: &o, Detail: map[string]interface{}{"panic": resP.Panic}})
				continue
			}
			id := fmt.Sprintf("p%d.%d", i, k)
			nwrap += len(ws)
			cases[id] = &PairCase{ID: id, Src1: srcP, Src2: srcR, Opts: o, R1: resP, R2: resR, Wrappers: ws}
			recs = append(recs, map[string]interface{}{"id": id, "out1": outLines(resP.Out), "out2": outLines(resR.Out),
				"err1": resP.Err != nil, "err2": false, "wrappers": ws})
			if len(recs) <= 2 {
				c.Sample(map[string]interface{}{"switches": sw, "with_poryswitch": srcP, "resolved": srcR})
			}
		}
	}
	// the command line: -s KEY=VALUE given to the real binary (values may contain '=')
	dir, derr := newScratch("c12cli")
	if derr == nil {
		defer os.RemoveAll(dir)
		ncli := 40
		if !c.Quick() {
			ncli = 400
		}
		for i := 0; i < ncli; i++ {
			R, av := GenFile(r, fc, "")
			sw := map[string]string{"GAME": r.Pick([]string{"RUBY", "RUBY=2", "EMERALD", "=", "A=B=C"}), "LANG": r.Pick([]string{"EN", "DE=AT", "", " EN", "en"})}
			srcR, _ := RenderFile(R, Style{R: r, Layout: 0})
			P, ws := DecorateFile(R, sw, r, true, true, true, false)
			if len(ws) == 0 {
				continue
			}
			srcP, _ := RenderFile(P, Style{R: r, Layout: i % 3})
			o := Opts{Optimize: i%2 == 0, AutoVar: av, Switches: sw}
			resR := Compile(srcR, o)
			if resR.Err != nil {
				continue
			}
			ccPath, _ := writeAutoVarConfig(dir, av)
			args := []string{"-cc", ccPath, "-lm=false", fmt.Sprintf("-optimize=%v", o.Optimize), "-s", "GAME=" + sw["GAME"], "-s", "LANG=" + sw["LANG"]}
			so, se, exit, to := RunBinary(c.Bin, srcP, args, 10*time.Second)
			id := fmt.Sprintf("cli%d", i)
			cases[id] = &PairCase{ID: id, Src1: srcP, Src2: srcR, Opts: o, R1: Result{Out: so, Err: errOrNil(exit != 0 || to, se)}, R2: resR, Wrappers: ws}
			recs = append(recs, map[string]interface{}{"id": id, "out1": outLines(so), "out2": outLines(resR.Out),
				"err1": exit != 0 || to, "err2": false, "wrappers": ws})
		}
	}
	bad, states, ok := runPairCases(c, "Poryswitch", "pscases.ndjson", recs)
	if !ok {
		return
	}
	for id := range bad {
		pc := cases[id]
		o := pc.Opts
		c.Violate(Violation{What: "program with poryswitch does not compile to the output of its resolved form (or fails / succeeds wrongly)",
			Source: pc.Src1, Opts: &o, Key: c12Key(pc),
			Detail: map[string]interface{}{"resolved_source": pc.Src2, "output": pc.R1.Out, "error": fmt.Sprint(pc.R1.Err), "resolved_output": pc.R2.Out, "wrappers": pc.Wrappers}})
	}
	// statements after a case that ends in `continue`
	{
		progs, srcs, os := contAfterPS()
		var rc []*RefCase
		rejected := 0
		for i := range progs {
			compileBoth(c, progs[i].Scripts[0].Name, progs[i], srcs[i], os[i], &rc, &rejected)
		}
		if rejected > 0 {
			c.Violate(Violation{What: fmt.Sprintf("%d programs with statements after a poryswitch case ending in continue were rejected", rejected), Source: srcs[0]})
		}
		st := RunRefine(c, rc, 6000, "statements after a poryswitch case that ends in continue: the output does not behave like the resolved body", nil)
		states += st.States
		c.Cov("continue_in_case_programs", int64(st.Cases))
	}
	c.Cov("programs", int64(len(recs)))
	c.Cov("disagreements_checked", int64(len(bad)))
	c.Cov("poryswitch_nodes", int64(nwrap))
	c.Cov("states", states)
}

func c12Key(pc *PairCase) string { return "" }

func errOrNil(failed bool, msg string) error {
	if failed {
		return errors.New(strings.TrimSpace(msg))
	}
	return nil
}

// contAfterPS: poryswitch is the only way to write statements after `continue` (the case ends with
// it, the block goes on).  The resolved form is not a program the parser accepts, so the pairing
// cannot be used; the product decides instead: source side = the resolved body, target = the real
// output for the program written with poryswitch.
func contAfterPS() (progs []*Prog, srcs []string, opts []Opts) {
	flag := func(n string) *Expr { return &Expr{K: "leaf", Typ: "flag", Opnd: n, Form: "bare"} }
	k := 0
	for _, loop := range []string{"while", "whileinf", "dowhile"} {
		for _, tail := range []string{"cmd", "label", "none", "if"} {
			for _, via := range []string{"match", "default"} {
				k++
				name := fmt.Sprintf("CP%d", k)
				cont := []Stmt{{K: "cmd", Toks: []string{"inside"}}, {K: "continue"}}
				other := []Stmt{{K: "cmd", Toks: []string{"other"}}}
				ps := Stmt{K: "poryswitch", V: "GAME"}
				if via == "match" {
					ps.PCases = []PCase{{Val: "RUBY", Brace: true, Body: cont}, {Val: "_", Brace: true, Body: other}}
				} else {
					ps.PCases = []PCase{{Val: "EMERALD", Brace: k%2 == 0, Body: other}, {Val: "_", Brace: true, Body: cont}}
				}
				lab := name + "_L"
				pre := []Stmt{{K: "cmd", Toks: []string{"top"}},
					{K: "if", Arms: []Arm{{Cond: flag("FLAG_B"), Body: []Stmt{{K: "cmd", Toks: []string{"goto", lab}}}}}}}
				var rest []Stmt
				switch tail {
				case "cmd":
					rest = []Stmt{{K: "cmd", Toks: []string{"dead"}}, {K: "label", Name: lab}, {K: "cmd", Toks: []string{"viaLabel"}}}
				case "label":
					rest = []Stmt{{K: "label", Name: lab}, {K: "cmd", Toks: []string{"viaLabel"}}, {K: "break"}}
				case "if":
					rest = []Stmt{{K: "if", Arms: []Arm{{Cond: flag("FLAG_C"), Body: []Stmt{{K: "label", Name: lab}, {K: "cmd", Toks: []string{"viaLabel"}}}}}}, {K: "cmd", Toks: []string{"dead2"}}}
				default:
					pre = pre[:1]
				}
				mk := func(mid []Stmt) []Stmt {
					body := append(append(append([]Stmt{}, pre...), mid...), rest...)
					var l Stmt
					switch loop {
					case "while":
						l = Stmt{K: "while", HasCond: true, Cond: flag("FLAG_A"), Body: body}
					case "whileinf":
						l = Stmt{K: "while", Body: append(body, Stmt{K: "cmd", Toks: []string{"end"}})}
					default:
						l = Stmt{K: "dowhile", Cond: flag("FLAG_A"), Body: body}
					}
					return []Stmt{l, {K: "cmd", Toks: []string{"after"}}}
				}
				written := &Prog{Scripts: []Script{{Name: name, Body: mk([]Stmt{ps})}}}
				resolved := &Prog{Scripts: []Script{{Name: name, Body: mk(cont)}}}
				progs = append(progs, resolved)
				srcs = append(srcs, RenderProg(written, Style{}))
				opts = append(opts, Opts{Switches: map[string]string{"GAME": "RUBY"}})
			}
		}
	}
	return
}
