package main

import (
	"fmt"
	"path/filepath"
	"regexp"
	"strconv"
	"strings"
	"time"

	"github.com/huderlem/poryscript/parser"
)

func init() {
	register("C06", "model_checking", checkC06)
}

var repoFontConfig = "/repo/font_config.json"

// realFormat calls the real FormatText with the parameters a format() call with
// at most the two positional parameters resolves to (font config defaults).
func realFormat(text string, extra string) (string, error) {
	fc, err := parser.LoadFontConfig(repoFontConfig)
	if err != nil {
		return "", err
	}
	fontID := fc.DefaultFontID
	maxLen := 0
	numLines := 0
	if i := strings.Index(extra, "numLines="); i >= 0 {
		// named numLines=<n> is the only named form the generator uses
		numLines, _ = strconv.Atoi(strings.TrimSpace(extra[i+9:]))
	} else {
		for _, t := range splitSimple(extra) {
			if strings.HasPrefix(t, `"`) {
				fontID = strings.Trim(t, `"`)
			} else if n, err := strconv.Atoi(t); err == nil {
				maxLen = n
			}
		}
	}
	f := fc.Fonts[fontID]
	if maxLen <= 0 {
		maxLen = f.MaxLineLength
	}
	if numLines <= 0 {
		numLines = f.NumLines
		if numLines <= 0 {
			numLines = 2
		}
	}
	return fc.FormatText(text, maxLen, f.CursorOverlapWidth, fontID, numLines)
}

// sourceContent is the literal as the lexer delivers it: parts joined by a newline.
func sourceContent(in *Inline) (string, error) {
	joined := strings.Join(in.Parts, "\n")
	if in.IsFmt {
		return realFormat(joined, in.Format)
	}
	return joined, nil
}

var reQuoted = regexp.MustCompile(`^"(.*)"$`)

// outputDefs classifies the data definitions of an output: text (directive
// lines with a quoted operand) and movement (plain step lines).
func outputDefs(pa *ParsedAsm) []map[string]interface{} {
	var out []map[string]interface{}
	for i, ln := range pa.Lines {
		if ln["k"] != "label" || ln["role"] != "data" {
			continue
		}
		var lines []AsmLine
		for j := i + 1; j < len(pa.Lines) && pa.Lines[j]["k"] != "label"; j++ {
			lines = append(lines, pa.Lines[j])
		}
		if len(lines) == 0 {
			continue
		}
		allText, allIns := true, true
		dir := ""
		var parts []string
		for _, l := range lines {
			if l["k"] == "data" {
				allIns = false
				m := reQuoted.FindStringSubmatch(l["rest"].(string))
				d := l["dir"].(string)
				if m == nil || (dir != "" && d != dir) {
					allText = false
				} else {
					dir = d
					parts = append(parts, m[1])
				}
			} else {
				allText = false
			}
		}
		switch {
		case allText:
			out = append(out, map[string]interface{}{"ev": "def", "kind": "text", "name": ln["name"], "g": ln["g"],
				"dir": dir, "content": strings.Join(parts, "\n")})
		case allIns:
			rle := []map[string]interface{}{}
			for _, l := range lines {
				op := l["op"].(string)
				if len(l["toks"].([]string)) != 1 {
					op = strings.Join(l["toks"].([]string), " ")
				}
				if n := len(rle); n > 0 && rle[n-1]["name"] == op {
					rle[n-1]["n"] = rle[n-1]["n"].(int) + 1
				} else {
					rle = append(rle, map[string]interface{}{"name": op, "n": 1})
				}
			}
			out = append(out, map[string]interface{}{"ev": "def", "kind": "moves", "name": ln["name"], "g": ln["g"],
				"dir": "", "content": rle})
		}
	}
	return out
}

// hoistEvents builds the trace of one compiled file.
func hoistEvents(id string, f *File, res Result) ([]map[string]interface{}, error) {
	evs := []map[string]interface{}{{"ev": "file", "id": id}}
	var pa *ParsedAsm
	cmdLine := map[string]AsmLine{}
	if res.Err == nil {
		pa = ParseAsm(res.Out)
		names, _ := InlineScripts(f)
		ul := map[string]bool{}
		_, bodies := InlineScripts(f)
		for _, b := range bodies {
			for _, l := range UserLabels(b) {
				ul[l] = true
			}
		}
		AnnotateRoles(pa, toSet(names), ul)
		for _, ln := range pa.Lines {
			if ln["k"] == "ins" {
				if _, ok := cmdLine[ln["op"].(string)]; !ok {
					cmdLine[ln["op"].(string)] = ln
				}
			}
		}
	}
	for _, oc := range Occurrences(f) {
		ev := map[string]interface{}{"ev": "occur", "script": oc.Script, "cmd": oc.Cmd, "label": "?"}
		if oc.In.Kind == "text" {
			content, err := sourceContent(oc.In)
			if err != nil {
				return nil, err
			}
			ev["kind"], ev["content"], ev["typ"] = "text", content, oc.In.Type
			ev["items"] = []string{}
		} else {
			ev["kind"], ev["content"], ev["typ"] = "moves", "", ""
			ev["items"] = flatItems(oc.In.Steps)
		}
		if ln, ok := cmdLine[oc.Cmd]; ok {
			a := ln["a"].([]string)
			if oc.Arg >= 0 && oc.Arg < len(a) {
				ev["label"] = a[oc.Arg]
			} else {
				ev["label"] = ""
			}
		}
		evs = append(evs, ev)
	}
	for i := range f.Tops {
		t := &f.Tops[i]
		if t.K == "text" {
			evs = append(evs, map[string]interface{}{"ev": "userdef", "kind": "text", "name": t.Name})
		}
		if t.K == "movement" {
			evs = append(evs, map[string]interface{}{"ev": "userdef", "kind": "moves", "name": t.Name})
		}
	}
	evs = append(evs, map[string]interface{}{"ev": "outcome", "ok": res.Err == nil})
	if pa != nil {
		evs = append(evs, outputDefs(pa)...)
	}
	evs = append(evs, map[string]interface{}{"ev": "end"})
	return evs, nil
}

var reReject = regexp.MustCompile(`(?s)<<\s*"REJECT",\s*"([^"]*)",\s*(\d+),\s*(.*?)>>\n`)

// TraceOutcome is what a deterministic trace replay reported.
type TraceOutcome struct {
	Rejected map[string]string // file id -> reason
	States   int64
	Events   int
	OK       bool
}

// runTraceSpec replays a concatenated trace through a deterministic trace
// spec; the whole trace must be consumed (distinct states = events + 1).
func runTraceSpec(c *Ctx, module, cfg, dataFile string, evs []map[string]interface{}) *TraceOutcome {
	var nd NDJSON
	for _, e := range evs {
		if err := nd.Add(e); err != nil {
			c.Fatal("encoding trace: %v", err)
			return &TraceOutcome{}
		}
	}
	res, err := RunTLC(c.ID+".trace", TLCJob{Module: module, Cfg: cfg, Data: map[string][]byte{dataFile: nd.Bytes()},
		Workers: 1, Timeout: 30 * time.Minute, HeapGB: 8})
	to := &TraceOutcome{Rejected: map[string]string{}, Events: len(evs)}
	if err != nil || !res.Clean() {
		c.Fatal("%s run failed: %v\n%s", module, err, tail(res.Output, 3000))
		return to
	}
	to.States = res.Distinct
	if res.Distinct != int64(len(evs))+1 {
		c.Fatal("%s consumed %d of %d events: trace not fully replayed\n%s", module, res.Distinct-1, len(evs), tail(res.Output, 2000))
		return to
	}
	for _, m := range reReject.FindAllStringSubmatch(res.Output, -1) {
		if _, ok := to.Rejected[m[1]]; !ok {
			to.Rejected[m[1]] = strings.Join(strings.Fields(m[3]), " ")
		}
	}
	to.OK = true
	return to
}

func checkC06(c *Ctx) {
	n := 350
	if !c.Quick() {
		n = 30000
	}
	r := NewRand(c.Seed*7753 + 6)
	fc := FileCfg{MaxTops: 4, Inline: true, AutoInline: true, MapScripts: true, Formats: true,
		Ctl: GenCfg{MaxDepth: 2, MaxStmts: 2, MaxLeaves: 2, Switches: true}}
	var evs []map[string]interface{}
	type rec struct {
		src string
		o   Opts
		out string
		evs []map[string]interface{}
	}
	files := map[string]rec{}
	nocc := 0
	for i := 0; i < n; i++ {
		f, av := GenFile(r, fc, "")
		// sometimes name a text / movement statement like a generated label
		if r.Chance(1, 5) {
			names, _ := InlineScripts(f)
			for k := range f.Tops {
				t := &f.Tops[k]
				if len(names) > 0 && (t.K == "text" || t.K == "movement") && r.Chance(1, 2) {
					kind := "_Text_"
					if t.K == "movement" {
						kind = "_Movement_"
					}
					t.Name = fmt.Sprintf("%s%s%d", r.Pick(names), kind, r.Intn(3))
				}
			}
			// keep the author's names distinct from each other
			seen := map[string]bool{}
			for k := range f.Tops {
				for f.Tops[k].Name != "" && seen[f.Tops[k].Name] {
					f.Tops[k].Name += "x"
				}
				seen[f.Tops[k].Name] = true
			}
		}
		// every third file is written with poryswitch (statements, texts, lists, nested) around
		// what it denotes: hoisting must see through the selection
		written := f
		var sw map[string]string
		if i%3 == 2 {
			sw = map[string]string{"GAME": "RUBY", "LANG": "EN"}
			written, _ = DecorateFile(f, sw, r, true, true, true, false)
		}
		src, _ := RenderFile(written, Style{R: r, Layout: r.Intn(3), Parens: r.Chance(1, 4)})
		o := Opts{Optimize: r.Chance(1, 2), AutoVar: av, FontConfig: repoFontConfig, Switches: sw}
		res := Compile(src, o)
		if res.Panic != "" || res.TimedOut {
			c.Violate(Violation{What: "compiler panicked or hung on a well-formed file", Source: src, Opts: &o, Detail: map[string]interface{}{"panic": res.Panic}})
			continue
		}
		id := fmt.Sprintf("f%d", i)
		e, err := hoistEvents(id, f, res)
		if err != nil {
			c.Fatal("building events: %v", err)
			return
		}
		for _, x := range e {
			if x["ev"] == "occur" {
				nocc++
			}
		}
		evs = append(evs, e...)
		files[id] = rec{src, o, res.Out + fmt.Sprint(res.Err), e}
		if i < 2 {
			c.Sample(map[string]interface{}{"source": src, "events": e})
		}
	}
	// name clashes, systematically: a user text / movement named like the k-th generated label of a
	// script that allocates two of each, written before or after that script
	for _, kind := range []string{"text", "movement"} {
		for k := 0; k < 3; k++ {
			for _, before := range []bool{true, false} {
				script := Top{K: "script", Name: "Own", Body: []Stmt{
					{K: "cmd", Toks: []string{"m1", "@inl0"}, Inl: []Inline{{Kind: "text", Parts: []string{"one"}}}},
					{K: "cmd", Toks: []string{"m2", "1", ",", "@inl0"}, Inl: []Inline{{Kind: "moves", Steps: []ListItem{{Name: "walk_up"}}}}},
					{K: "cmd", Toks: []string{"m3", "@inl0"}, Inl: []Inline{{Kind: "text", Parts: []string{"two"}}}},
					{K: "cmd", Toks: []string{"m4", "1", ",", "@inl0"}, Inl: []Inline{{Kind: "moves", Steps: []ListItem{{Name: "walk_down"}}}}}}}
				var user Top
				if kind == "text" {
					user = Top{K: "text", Name: fmt.Sprintf("Own_Text_%d", k), Text: &TextLit{Parts: []string{"mine"}}}
				} else {
					user = Top{K: "movement", Name: fmt.Sprintf("Own_Movement_%d", k), Items: []ListItem{{Name: "face_left"}}}
				}
				f := &File{Tops: []Top{script, user}}
				if before {
					f.Tops = []Top{user, script}
				}
				src, _ := RenderFile(f, Style{R: r, Layout: 1})
				o := Opts{Optimize: true}
				res := Compile(src, o)
				if res.Panic != "" || res.TimedOut {
					c.Violate(Violation{What: "compiler panicked or hung on a well-formed file", Source: src, Opts: &o})
					continue
				}
				id := fmt.Sprintf("clash.%s.%d.%v", kind, k, before)
				e, err := hoistEvents(id, f, res)
				if err != nil {
					c.Fatal("building events: %v", err)
					return
				}
				evs = append(evs, e...)
				files[id] = rec{src, o, res.Out + fmt.Sprint(res.Err), e}
			}
		}
	}
	// step lists that only differ in where a digit stands: names ending in digits next to multipliers
	// ("d_1 * 61" / "d_16" / "d_161"), runs split differently ("d_1 * 6, d_1" is "d_1 * 7"), and texts
	// whose concatenation with a neighbour coincides; each script holds a dozen of them
	{
		names := []string{"d_1", "d_16", "d_161", "d_1_6", "d_"}
		muls := []string{"", "1", "6", "16", "61", "161", "0x10"}
		var bodies [][]ListItem
		for _, n := range names {
			for _, m := range muls {
				bodies = append(bodies, []ListItem{{Name: n, Mul: m}})
			}
		}
		bodies = append(bodies, []ListItem{{Name: "d_1", Mul: "6"}, {Name: "d_1"}}, []ListItem{{Name: "d_1"}, {Name: "d_1", Mul: "6"}},
			[]ListItem{{Name: "d_1", Mul: "7"}}, []ListItem{{Name: "d_1", Mul: "6"}, {Name: "d_16"}}, []ListItem{{Name: "d_16"}, {Name: "d_1", Mul: "6"}},
			[]ListItem{{Name: "d_1"}, {Name: "d_16", Mul: "2"}}, []ListItem{{Name: "d_1", Mul: "16"}, {Name: "d_2"}}, []ListItem{{Name: "d_1", Mul: "1"}, {Name: "d_62"}})
		for rot := 0; rot < 2; rot++ {
			f := &File{}
			for sI := 0; sI*12 < len(bodies); sI++ {
				var body []Stmt
				for k := sI * 12; k < len(bodies) && k < sI*12+12; k++ {
					b := bodies[(k+rot*17)%len(bodies)]
					body = append(body, Stmt{K: "cmd", Toks: []string{fmt.Sprintf("mv%d", k), "1", ",", "@inl0"}, Inl: []Inline{{Kind: "moves", Steps: b}}})
				}
				f.Tops = append(f.Tops, Top{K: "script", Name: fmt.Sprintf("Digits%d", sI), Body: body})
			}
			src, _ := RenderFile(f, Style{R: r, Layout: 1})
			o := Opts{Optimize: rot == 0}
			res := Compile(src, o)
			if res.Panic != "" || res.TimedOut || res.Err != nil {
				c.Violate(Violation{What: "compiler failed on a well-formed file: " + fmt.Sprint(res.Err) + res.Panic, Source: src, Opts: &o})
				continue
			}
			id := fmt.Sprintf("digits.%d", rot)
			e, err := hoistEvents(id, f, res)
			if err != nil {
				c.Fatal("building events: %v", err)
				return
			}
			evs = append(evs, e...)
			files[id] = rec{src, o, res.Out + fmt.Sprint(res.Err), e}
		}
	}
	// two-digit label numbers: scripts with 25 inline texts and 13 inline movements each, some repeated
	{
		f := &File{}
		for _, sn := range []string{"BigA", "BigB"} {
			script := Top{K: "script", Name: sn}
			for k := 0; k < 45; k++ {
				content := fmt.Sprintf("%s says %d", sn, k)
				if k%6 == 5 || k == 0 || k == 44 {
					content = "shared line" // the same text several times (also 40 texts apart), also across the two scripts
				}
				if k%10 == 3 {
					// long texts of equal length that agree in their first 70 characters
					content = strings.Repeat("The quick brown fox. ", 4) + fmt.Sprintf("tail %02d of script %s", k, sn)
				}
				script.Body = append(script.Body, Stmt{K: "cmd", Toks: []string{fmt.Sprintf("%st%d", sn, k), "@inl0"}, Inl: []Inline{{Kind: "text", Parts: []string{content}, Type: []string{"", "", "ascii"}[k%3]}}})
				if k%2 == 0 {
					steps := []ListItem{{Name: "walk_up", Mul: fmt.Sprint(k/2 + 1)}, {Name: "face_left"}}
					if k%8 == 6 {
						steps = []ListItem{{Name: "walk_down"}}
					}
					switch k {
					case 4:
						steps = []ListItem{{Name: "face_up"}, {Name: "walk_up", Mul: "300"}} // 300 = 44 mod 256
					case 12:
						steps = []ListItem{{Name: "face_up"}, {Name: "walk_up", Mul: "44"}}
					case 20, 36:
						steps = []ListItem{{Name: "walk_left", Mul: "70"}, {Name: "walk_right", Mul: "3"}} // a long list, twice
					case 28:
						steps = []ListItem{{Name: "face_up"}, {Name: "walk_up", Mul: "556"}} // 556 = 44 mod 512 and mod 256
					}
					script.Body = append(script.Body, Stmt{K: "cmd", Toks: []string{fmt.Sprintf("%sm%d", sn, k), "1", ",", "@inl0"}, Inl: []Inline{{Kind: "moves", Steps: steps}}})
				}
			}
			f.Tops = append(f.Tops, script)
		}
		src, _ := RenderFile(f, Style{R: r, Layout: 0})
		o := Opts{Optimize: true}
		res := Compile(src, o)
		if res.Panic != "" || res.TimedOut {
			c.Violate(Violation{What: "compiler panicked or hung on a well-formed file", Source: src, Opts: &o})
		} else if e, err := hoistEvents("bigfile", f, res); err == nil {
			evs = append(evs, e...)
			files["bigfile"] = rec{src, o, res.Out + fmt.Sprint(res.Err), e}
		}
	}
	// the exhaustive family of occurrence sequences (GenHoist.tla)
	maxLen, every := 3, 1
	if !c.Quick() {
		maxLen, every = 4, 2
	}
	fam, ok := cachedGenModule(c, "GenHoist", map[string]int{"MaxLen": maxLen}, "hoists.ndjson")
	if !ok {
		return
	}
	textsOf := [][]string{{"x"}, {"x$"}}
	movesOf := [][]ListItem{{{Name: "walk_up", Mul: "2"}}, {{Name: "walk_up"}, {Name: "walk_up"}}, {{Name: "walk_up", Mul: "3"}},
		{{Name: "face_left"}, {Name: "walk_up", Mul: "2"}}}
	nfam := 0
	for i, ln := range fam["hoists.ndjson"] {
		var occs []struct {
			Script string `json:"script"`
			Kind   string `json:"kind"`
			C      int    `json:"c"`
			Type   string `json:"type"`
		}
		if jsonUnmarshal([]byte(ln), &occs) != nil {
			c.Fatal("bad GenHoist line")
			return
		}
		if len(occs) == maxLen && !sampled(i, c.Seed, every) {
			continue
		}
		bodies := map[string][]Stmt{}
		for k, oc := range occs {
			cmd := fmt.Sprintf("h%d_%d", i, k)
			var in Inline
			if oc.Kind == "text" {
				in = Inline{Kind: "text", Parts: textsOf[oc.C-1], Type: oc.Type}
			} else {
				in = Inline{Kind: "moves", Steps: movesOf[oc.C-1]}
			}
			bodies[oc.Script] = append(bodies[oc.Script], Stmt{K: "cmd", Toks: []string{cmd, "@inl0"}, Inl: []Inline{in}})
		}
		f := &File{}
		// script B may come first in the file: numbering is per script, sharing per file
		order := []string{"A", "B"}
		if i%2 == 1 {
			order = []string{"B", "A"}
		}
		for _, sn := range order {
			if b, ok := bodies[sn]; ok {
				f.Tops = append(f.Tops, Top{K: "script", Name: sn, Body: b})
			}
		}
		src, _ := RenderFile(f, Style{R: r, Layout: 1})
		o := Opts{Optimize: true}
		res := Compile(src, o)
		if res.Panic != "" || res.TimedOut {
			c.Violate(Violation{What: "compiler panicked or hung on a well-formed file", Source: src, Opts: &o})
			continue
		}
		id := fmt.Sprintf("g%d", i)
		e, err := hoistEvents(id, f, res)
		if err != nil {
			c.Fatal("building events: %v", err)
			return
		}
		nocc += len(occs)
		nfam++
		evs = append(evs, e...)
		files[id] = rec{src, o, res.Out + fmt.Sprint(res.Err), e}
	}
	if !c.Quick() {
		// the design's invariants for runs of any length (Apalache, inductive)
		ok, msg := runHoistInd(c, false)
		c.CovSet("inductive_invariant", msg)
		if !ok && (strings.Contains(msg, "not inductive") || strings.Contains(msg, "base case")) {
			c.Fatal("HoistInd: %s", msg) // the model itself is wrong; an undecided run (timeout, tool missing) is only recorded
		}
	}
	c.Cov("genhoist_files", int64(nfam))
	to := runTraceSpec(c, "HoistTrace", "HoistTrace.cfg", "hoist.ndjson", evs)
	for id, why := range to.Rejected {
		f := files[id]
		o := f.o
		c.Violate(Violation{What: "hoisting trace rejected by the Hoist model: " + why, Source: f.src, Opts: &o,
			Detail: map[string]interface{}{"output_or_error": f.out, "events": f.evs}})
	}
	c.Cov("files", int64(n))
	c.Cov("inline_occurrences", int64(nocc))
	c.Cov("events", int64(len(evs)))
	c.Cov("states", to.States)
	c.Cov("transitions", to.States)
	c.Cov("traces_validated_against_impl", int64(len(files)))
	_ = filepath.Join
}
