package main

import (
	"fmt"
	"regexp"
)

func init() {
	register("C15", "exploration", checkC15)
}

var reRawLabel = regexp.MustCompile(`(?m)^([A-Za-z_][A-Za-z0-9_]*)::?\s*$`)

// fileStaticCase derives what a file obliges its output to contain.
func fileStaticCase(id string, f *File, src string, o Opts, out string) *StaticCase {
	sc := &StaticCase{ID: id, Src: src, Opts: o, Out: out, Scopes: map[string]string{}}
	def := map[string]string{"script": "g", "text": "g", "mapscripts": "g", "movement": "l", "mart": "l"}
	for i := range f.Tops {
		t := &f.Tops[i]
		switch t.K {
		case "raw":
			for _, m := range reRawLabel.FindAllStringSubmatch(t.Raw, -1) {
				sc.RawLabels = append(sc.RawLabels, m[1])
			}
			continue
		case "const":
			continue
		}
		sc.MustDef = append(sc.MustDef, t.Name)
		switch t.Scope {
		case "global":
			sc.Scopes[t.Name] = "g"
		case "local":
			sc.Scopes[t.Name] = "l"
		default:
			sc.Scopes[t.Name] = def[t.K]
		}
		if t.K == "mapscripts" {
			for j := range t.MS {
				e := &t.MS[j]
				if e.Kind == "inline" || e.Kind == "table" {
					sc.MustDef = append(sc.MustDef, t.Name+"_"+e.Type)
				}
				for k := range e.Table {
					if e.Table[k].Kind == "inline" {
						sc.MustDef = append(sc.MustDef, fmt.Sprintf("%s_%s_%d", t.Name, e.Type, k))
					}
				}
			}
		}
	}
	names, bodies := InlineScripts(f)
	sc.Scripts = names
	for _, b := range bodies {
		walkStmts(b, func(st *Stmt) {
			if st.K == "label" {
				sc.ULabels = append(sc.ULabels, st.Name)
				if st.G {
					sc.Scopes[st.Name] = "g"
				} else {
					sc.Scopes[st.Name] = "l"
				}
			}
		})
	}
	return sc
}

type topFam []struct {
	K     string `json:"k"`
	Scope string `json:"scope"`
}

// topFamilyFile fills a GenTop member with content.
func topFamilyFile(g *fgen, tf topFam, tag string) *File {
	f := &File{}
	for _, t := range tf {
		top := g.top(t.K)
		top.Scope = t.Scope
		if top.Name != "" {
			top.Name += tag
		}
		f.Tops = append(f.Tops, top)
	}
	return f
}

func newFgen(r *Rand, fc FileCfg) *fgen {
	return &fgen{gen: &gen{r: r, cfg: fc.Ctl}, fc: fc, autoCfg: genAutoVar(), names: map[string]bool{}}
}

func checkC15(c *Ctx) {
	maxTops, every := 3, 3
	if !c.Quick() {
		maxTops, every = 3, 1
	}
	fam, ok := cachedGenModule(c, "GenTop", map[string]int{"MaxTops": maxTops}, "tops.ndjson")
	if !ok {
		return
	}
	r := NewRand(c.Seed*911 + 15)
	fc := FileCfg{MaxTops: 3, Inline: true, AutoInline: true, MapScripts: true, Raw: true,
		Ctl: GenCfg{MaxDepth: 2, MaxStmts: 2, MaxLeaves: 2, Switches: true, Gotos: true}}
	var st []*StaticCase
	n := 0
	for i, ln := range fam["tops.ndjson"] {
		var tf topFam
		if jsonUnmarshal([]byte(ln), &tf) != nil {
			c.Fatal("bad GenTop line")
			return
		}
		if len(tf) == maxTops && !sampled(i, c.Seed, every) {
			continue
		}
		g := newFgen(r, fc)
		f := topFamilyFile(g, tf, "")
		src, _ := RenderFile(f, Style{R: r, Layout: i % 3})
		o := Opts{Optimize: i%2 == 0, AutoVar: g.autoCfg}
		res := Compile(src, o)
		if res.Panic != "" || res.TimedOut {
			c.Violate(Violation{What: "compiler panicked or hung", Source: src, Opts: &o, Detail: map[string]interface{}{"panic": res.Panic}})
			continue
		}
		if res.Err != nil {
			c.Violate(Violation{What: "well-formed file rejected: " + res.Err.Error(), Source: src, Opts: &o})
			continue
		}
		n++
		st = append(st, fileStaticCase(fmt.Sprintf("t%d", i), f, src, o, res.Out))
		if n == 3 || n == 700 {
			c.Sample(map[string]interface{}{"family_member": tf, "source": src, "output": res.Out})
		}
	}
	sr := RunStatic(c, st, false)
	byID := map[string]*StaticCase{}
	for _, s := range st {
		byID[s.ID] = s
	}
	for id, names := range sr.Failing {
		for _, nm := range names {
			if nm == "ScopesAsStated" {
				s := byID[id]
				c.Violate(Violation{What: "a label is exported / local contrary to its modifier or the documented default, or a generated label is global",
					Source: s.Src, Opts: &s.Opts, Detail: map[string]interface{}{"output": s.Out, "expected_scopes": s.Scopes}})
			}
		}
	}
	c.Cov("evaluations", int64(sr.Cases))
	c.Cov("distinct_nontrivial", int64(sr.Cases))
	c.CovSet("rule", "every file of <= 3 top-level statements over {script,text,movement,mart,mapscripts} x {no modifier,(global),(local)} plus raw (enumerated by TLC from GenTop.tla; all of size <= 2, every 3rd of size 3 in the quick tier), bodies filled with labels (plain and (global)), inline text, moves(), inline map scripts and tables; every label definition of the real output is judged by AsmStatic!ScopesAsStated")
	c.Cov("states", sr.States)
	c.CovSet("exhaustive", !c.Quick())
}
