package main

// The product check: PoryLang (source) x ScriptVM (real output), spec/Refine.tla.

import (
	"fmt"
	"regexp"
	"sort"
	"strings"
	"time"
)

// RefCase is one (program, options) pair compiled by the real compiler.
type RefCase struct {
	ID   string
	Prog *Prog
	Src  string
	Opts Opts
	Out  string
	// Names of inline scripts etc. that count as script entries in the output
	// but are not in Prog (unused for plain scripts).
	ExtraScripts []string
	// Only these entries are explored when non-nil (label -> node id).
	OnlyEntries []string
}

// usesControlOpsAsCommands reports whether the program writes a VM control
// instruction as a plain command (outside the domain of the product).
func usesControlOpsAsCommands(p *Prog) bool {
	bad := false
	for i := range p.Scripts {
		walkStmts(p.Scripts[i].Body, func(s *Stmt) {
			if s.K == "cmd" {
				n := s.Toks[0]
				if vmControlOps[n] && n != "end" && n != "return" && !(n == "goto" && len(s.Toks) == 2) {
					bad = true
				}
			}
		})
	}
	return bad
}

func buildRefineRecord(rc *RefCase) map[string]interface{} {
	prog, sdata, derr := withDataTokens(rc.Prog)
	if derr != nil {
		panic("inline data of case " + rc.ID + ": " + derr.Error())
	}
	flat := Flatten(prog)
	pa := ParseAsm(rc.Out)
	scriptNames := map[string]bool{}
	userLabels := map[string]bool{}
	for i := range rc.Prog.Scripts {
		scriptNames[rc.Prog.Scripts[i].Name] = true
		for _, l := range UserLabels(rc.Prog.Scripts[i].Body) {
			userLabels[l] = true
		}
	}
	for _, n := range rc.ExtraScripts {
		scriptNames[n] = true
	}
	lab := AnnotateRoles(pa, scriptNames, userLabels)
	entries := []map[string]interface{}{}
	only := map[string]bool{}
	for _, e := range rc.OnlyEntries {
		only[e] = true
	}
	for i := range rc.Prog.Scripts {
		name := rc.Prog.Scripts[i].Name
		if rc.OnlyEntries == nil || only[name] {
			entries = append(entries, map[string]interface{}{"label": name, "node": flat.SRoot[name]})
		}
	}
	names := make([]string, 0, len(flat.ULab))
	for l := range flat.ULab {
		if l != "@" {
			names = append(names, l)
		}
	}
	sort.Strings(names)
	for _, l := range names {
		if rc.OnlyEntries == nil || only[l] {
			entries = append(entries, map[string]interface{}{"label": l, "node": flat.ULab[l]})
		}
	}
	asm := make([]AsmLine, len(pa.Lines))
	copy(asm, pa.Lines)
	return map[string]interface{}{
		"id": rc.ID, "N": flat.N, "E": flat.E, "ulab": flat.ULab, "sroot": flat.SRoot,
		"asm": asm, "lab": lab, "entries": entries, "sdata": sdata, "vdefs": targetDefs(pa),
	}
}

var reDiverged = regexp.MustCompile(`(?s)<<\s*"(DIVERGED|BADEND)",\s*(\d+),\s*"([^"]+)"`)

// RefineStats accumulates over batches.
type RefineStats struct {
	Cases     int
	States    int64
	Generated int64
	Diverged  map[string]string // case id -> kind
}

// runRefineBatch explores one batch; returns the ids of diverging cases.
func runRefineBatch(c *Ctx, tag string, cases []*RefCase, st *RefineStats, timeout time.Duration) bool {
	var nd NDJSON
	for _, rc := range cases {
		if err := nd.Add(buildRefineRecord(rc)); err != nil {
			c.Fatal("encoding case %s: %v", rc.ID, err)
			return false
		}
	}
	res, err := RunTLC(tag, TLCJob{Module: "Refine", Cfg: "Refine.cfg", Data: map[string][]byte{"cases.ndjson": nd.Bytes()},
		Workers: c.Workers, Timeout: timeout, HeapGB: 12})
	if err != nil {
		c.Fatal("running TLC: %v", err)
		return false
	}
	if !res.Clean() {
		// An exploration that did not finish decides nothing about the cases that did not diverge - but a
		// divergence it printed is a state it reached (and is confirmed alone afterwards): keep those, and
		// call the run undecided only if there is none.  (Seen: a wrong output whose VM side no longer
		// runs the commands that bound the memo, so the product of one case exhausts the time limit.)
		found := 0
		for _, m := range reDiverged.FindAllStringSubmatch(res.Output, -1) {
			if _, ok := st.Diverged[m[3]]; !ok || m[1] == "DIVERGED" {
				st.Diverged[m[3]] = m[1]
				found++
			}
		}
		if found == 0 {
			c.Fatal("TLC did not complete cleanly on batch %s (timedout=%v errors=%v)\n%s", tag, res.TimedOut, res.Errors, tail(res.Output, 3000))
			return false
		}
		fmt.Printf("note: batch %s did not finish (timedout=%v); %d divergences found before that are reported\n", tag, res.TimedOut, found)
		st.Cases += len(cases)
		return true
	}
	st.Cases += len(cases)
	st.States += res.Distinct
	st.Generated += res.Generated
	for _, m := range reDiverged.FindAllStringSubmatch(res.Output, -1) {
		if _, ok := st.Diverged[m[3]]; !ok || m[1] == "DIVERGED" {
			st.Diverged[m[3]] = m[1]
		}
	}
	return true
}

func tail(s string, n int) string {
	if len(s) <= n {
		return s
	}
	return s[len(s)-n:]
}

// refineTrace re-runs a single case with the divergence as an invariant and
// returns TLC's counterexample (the oracle path) as text.
func refineTrace(c *Ctx, rc *RefCase) (string, bool) {
	var nd NDJSON
	nd.Add(buildRefineRecord(rc))
	res, err := RunTLC("trace", TLCJob{Module: "Refine", Cfg: "RefineTrace.cfg", Data: map[string][]byte{"cases.ndjson": nd.Bytes()},
		Workers: 1, Timeout: 2 * time.Minute, HeapGB: 4})
	if err != nil {
		return err.Error(), false
	}
	violated := strings.Contains(res.Output, "is violated")
	i := strings.Index(res.Output, "Error: Invariant")
	tr := res.Output
	if i >= 0 {
		tr = res.Output[i:]
	}
	if j := strings.Index(tr, "states generated"); j >= 0 {
		tr = tr[:j]
	}
	return tr, violated
}

// RunRefine explores all cases in batches and turns confirmed divergences
// into violations of property c.ID.
func RunRefine(c *Ctx, cases []*RefCase, batch int, what string, keyFn func(*RefCase) string) *RefineStats {
	st := &RefineStats{Diverged: map[string]string{}}
	byID := map[string]*RefCase{}
	for _, rc := range cases {
		byID[rc.ID] = rc
	}
	per := 10 * time.Minute
	if !c.Quick() {
		per = 40 * time.Minute
	}
	for i := 0; i < len(cases); i += batch {
		j := i + batch
		if j > len(cases) {
			j = len(cases)
		}
		if !runRefineBatch(c, fmt.Sprintf("%s.b%d", c.ID, i/batch), cases[i:j], st, per) {
			return st
		}
	}
	ids := make([]string, 0, len(st.Diverged))
	for id := range st.Diverged {
		ids = append(ids, id)
	}
	sort.Slice(ids, func(a, b int) bool { return len(byID[ids[a]].Src) < len(byID[ids[b]].Src) })
	confirmed := 0
	for n, id := range ids {
		rc := byID[id]
		v := Violation{What: fmt.Sprintf("%s: %s (%s)", what, st.Diverged[id], id), Source: rc.Src, Opts: &rc.Opts,
			Detail: map[string]interface{}{"output": rc.Out}}
		if keyFn != nil {
			v.Key = keyFn(rc)
		}
		if n < 8 {
			// confirmation: the single case, alone, must violate the invariant
			tr, ok := refineTrace(c, rc)
			if !ok {
				c.Fatal("case %s diverged in the batch but not alone; counterexample unconfirmed", id)
				continue
			}
			v.Detail["tlc_trace"] = tr
			confirmed++
		}
		c.Violate(v)
	}
	return st
}
