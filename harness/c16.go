package main

import (
	"fmt"
	"strings"
)

func init() {
	register("C16", "exploration", checkC16)
}

// uniq renames every identity-bearing token of a file apart, so that an output
// line can be traced back to the construct that produced it.
type uniq struct {
	n  int
	av map[string]AutoV
}

func (u *uniq) next(prefix string) string {
	u.n++
	return fmt.Sprintf("%s%d", prefix, u.n)
}

var keepCmd = map[string]bool{"end": true, "return": true, "goto": true, "call": true}

func (u *uniq) toks(toks []string) {
	if len(toks) == 0 || keepCmd[toks[0]] {
		return
	}
	if cfg, ok := u.av[toks[0]]; ok {
		nn := u.next("autoq")
		u.av[nn] = cfg
		toks[0] = nn
		if cfg.ArgPos != nil {
			// the result var is an argument: make it unique too
			idx := 0
			for k := 1; k < len(toks); k++ {
				if toks[k] == "," {
					idx++
					continue
				}
				if idx == *cfg.ArgPos && !strings.HasPrefix(toks[k], "@") {
					toks[k] = u.next("VAR_")
					break
				}
			}
		}
		return
	}
	toks[0] = u.next("c")
}

func (u *uniq) inl(in []Inline) {
	for k := range in {
		if in[k].Kind == "text" {
			in[k].Parts = append([]string{}, in[k].Parts...)
			in[k].Parts[0] = u.next("T") + ":" + in[k].Parts[0]
		} else {
			u.items(in[k].Steps, "step_")
		}
	}
}

func (u *uniq) items(items []ListItem, prefix string) {
	for k := range items {
		if items[k].PS != nil {
			for c := range items[k].PS.Cases {
				u.items(items[k].PS.Cases[c].Items, prefix)
			}
			continue
		}
		if items[k].Name != "step_end" && items[k].Name != "ITEM_NONE" {
			items[k].Name = u.next(prefix)
		}
	}
}

func (u *uniq) expr(e *Expr) {
	walkExpr(e, func(x *Expr) {
		if x.K != "leaf" {
			return
		}
		switch x.Typ {
		case "flag":
			x.Opnd = u.next("FLAG_")
		case "var":
			x.Opnd = u.next("VAR_")
		case "defeated":
			x.Opnd = u.next("TRAINER_")
		case "auto":
			x.Toks = append([]string{}, x.Toks...)
			u.toks(x.Toks)
			u.inl(x.Inl)
		}
	})
}

func (u *uniq) body(body []Stmt) {
	for i := range body {
		s := &body[i]
		switch s.K {
		case "cmd":
			s.Toks = append([]string{}, s.Toks...)
			u.toks(s.Toks)
			u.inl(s.Inl)
		case "if":
			for j := range s.Arms {
				u.expr(s.Arms[j].Cond)
				u.body(s.Arms[j].Body)
			}
			u.body(s.Els)
		case "while", "dowhile":
			if s.Cond != nil {
				u.expr(s.Cond)
			}
			u.body(s.Body)
		case "switch":
			if len(s.Pre) > 0 {
				s.Pre = append([]string{}, s.Pre...)
				u.toks(s.Pre)
				u.inl(s.PreInl)
			} else {
				s.V = u.next("VAR_")
			}
			for j := range s.Cases {
				if !s.Cases[j].IsDef {
					s.Cases[j].Val = u.next("90")
				}
				u.body(s.Cases[j].Body)
			}
		}
	}
}

func (u *uniq) file(f *File) {
	for i := range f.Tops {
		t := &f.Tops[i]
		switch t.K {
		case "script":
			u.body(t.Body)
		case "text":
			if t.Text.PS == nil {
				t.Text.Parts = append([]string{}, t.Text.Parts...)
				t.Text.Parts[0] = u.next("T") + ":" + t.Text.Parts[0]
			}
		case "movement":
			u.items(t.Items, "step_")
		case "mart":
			u.items(t.Items, "ITEM_")
		case "raw":
			if t.Raw == "" {
				break // an empty raw block stays empty
			}
			lines := strings.Split(t.Raw, "\n")
			id := u.next("raw")
			for k := range lines {
				cr := ""
				if strings.HasSuffix(lines[k], "\r") {
					cr = "\r"
				}
				if strings.TrimSpace(lines[k]) != "" || k == len(lines)-1 {
					lines[k] = fmt.Sprintf("@ %s_%d %s", id, k, strings.TrimSpace(lines[k])) + cr
				}
			}
			t.Raw = strings.Join(lines, "\n")
		case "mapscripts":
			for j := range t.MS {
				e := &t.MS[j]
				e.Type = u.next("MAP_SCRIPT_")
				u.body(e.Body)
				for k := range e.Table {
					e.Table[k].Var = u.next("VAR_")
					u.body(e.Table[k].Body)
				}
			}
		}
	}
}

type span struct{ lo, hi int }

// identitySpans maps identity tokens to the source lines they were written on.
func identitySpans(ps []Piece) map[string]span {
	m := map[string]span{}
	for i := range ps {
		p := &ps[i]
		t := p.Text
		switch {
		case strings.HasPrefix(t, `"T`) && strings.Contains(t, ":"):
			// a text: identified by its T<n> prefix; the marker belongs to its first line
			id := t[1:strings.Index(t, ":")]
			m[id] = span{p.Line, p.Line}
			// the body of a text statement: the statement starts at its keyword
			for j := i - 1; j >= 0 && j >= i-14; j-- {
				if ps[j].Text == "{" || ps[j].Text == "(" || ps[j].Text == "format" || ps[j].Glue || (j+1 < len(ps) && ps[j+1].Glue) ||
					ps[j].Text == "global" || ps[j].Text == "local" || ps[j].Text == ")" || strings.HasPrefix(ps[j].Text, "Txt") {
					continue
				}
				if ps[j].Text == "text" {
					m[id] = span{ps[j].Line, p.Line}
				}
				break
			}
		case strings.HasPrefix(t, "`"):
			// a raw block: every content line
			// (the k-th line of the block was written k lines below the opening backtick,
			// wherever the keyword 'raw' is)
			for k, ln := range strings.Split(strings.Trim(t, "`"), "\n") {
				f := strings.Fields(ln)
				if len(f) >= 2 && f[0] == "@" {
					m[f[1]] = span{p.Line + k, p.Line + k}
				}
			}
		default:
			if _, dup := m[t]; !dup {
				m[t] = span{p.Line, p.EndL}
			} else {
				m[t] = span{-1, -1} // not unique: unusable
			}
		}
	}
	// an AutoVar command used as an operand is the construct from its name to
	// its closing parenthesis; its argument tokens belong to it
	for i := range ps {
		if !strings.HasPrefix(ps[i].Text, "autoq") || i+1 >= len(ps) || ps[i+1].Text != "(" {
			continue
		}
		depth, j := 0, i+1
		for ; j < len(ps); j++ {
			if ps[j].Text == "(" {
				depth++
			} else if ps[j].Text == ")" {
				depth--
				if depth == 0 {
					break
				}
			}
		}
		if j >= len(ps) {
			continue
		}
		sp := span{ps[i].Line, ps[j].EndL}
		m[ps[i].Text] = sp
		for k := i + 2; k < j; k++ {
			if strings.HasPrefix(ps[k].Text, "VAR_") {
				m[ps[k].Text] = sp
			}
		}
	}
	return m
}

func checkC16(c *Ctx) {
	n := 250
	if !c.Quick() {
		n = 5000
	}
	r := NewRand(c.Seed*1543 + 16)
	fc := FileCfg{MaxTops: 4, Inline: true, AutoInline: true, MapScripts: true, Raw: true, Formats: true,
		Ctl: GenCfg{MaxDepth: 2, MaxStmts: 3, MaxLeaves: 3, Auto: true, Switches: true, Gotos: true}}
	var recs []map[string]interface{}
	srcOf, outOf := map[string]string{}, map[string]string{}
	nmark, nknown := 0, 0
	for i := 0; i < n; i++ {
		f, av := GenFile(r, fc, "")
		u := &uniq{av: av}
		u.file(f)
		ps := FilePieces(f, Style{R: r, Parens: r.Chance(1, 3)})
		mode := i % 3
		if i%5 == 0 {
			mode = 2
		}
		src := Layout(ps, mode, r)
		spans := identitySpans(ps)
		kwLine := map[string]int{} // label name of movement / mart statements -> line of the keyword
		for k := range ps {
			if (ps[k].Text == "movement" || ps[k].Text == "mart") && ps[k].Tag != "" {
				// the name is the next identifier piece after an optional scope
				for j := k + 1; j < len(ps) && j < k+5; j++ {
					if ps[j].Text != "(" && ps[j].Text != ")" && ps[j].Text != "global" && ps[j].Text != "local" {
						kwLine[ps[j].Text] = ps[k].Line
						break
					}
				}
			}
		}
		path := []string{"data/maps/Test/scripts.pory", `C:\proj\scripts.pory`, "a b.pory", "100%/s%d.pory", "../up/./x.pory", "dir/%s%v#1.pory"}[i%6]
		o := Opts{Optimize: i%2 == 0, AutoVar: av, LineMarkers: true, InputPath: path, FontConfig: repoFontConfig}
		oPlain, oNoPath := o, o
		oPlain.LineMarkers = false
		oNoPath.InputPath = ""
		rl, rp, rn := Compile(src, o), Compile(src, oPlain), Compile(src, oNoPath)
		id := fmt.Sprintf("m%d", i)
		srcOf[id] = src
		if rl.Panic != "" || rp.Panic != "" || rn.Panic != "" || rl.TimedOut {
			c.Violate(Violation{What: "compiler panicked or hung", Source: src, Opts: &o, Detail: map[string]interface{}{"panic": rl.Panic + rp.Panic + rn.Panic}})
			continue
		}
		outOf[id] = rl.Out + errText(rl.Err)
		rec := map[string]interface{}{"id": id, "err": rl.Err != nil || rp.Err != nil || rn.Err != nil, "lm": strings.Split(rl.Out, "\n"), "plain": strings.Split(rp.Out, "\n"),
			"nopath": strings.Split(rn.Out, "\n"), "path": strings.ReplaceAll(path, `\`, `\\`), "nlines": strings.Count(src, "\n") + 1}
		markers := []map[string]interface{}{}
		lines := strings.Split(rl.Out, "\n")
		for k, ln := range lines {
			m := reMarker.FindStringSubmatch(strings.TrimRight(ln, "\r"))
			if m == nil {
				continue
			}
			num := 0
			fmt.Sscanf(m[1], "%d", &num)
			mk := map[string]interface{}{"n": num, "file": m[2], "known": false, "lo": 0, "hi": 0, "what": fmt.Sprintf("marker %q at output line %d", ln, k+1)}
			nmark++
			if k+1 < len(lines) {
				nx := lines[k+1]
				ident := ""
				tr := strings.TrimSpace(nx)
				switch {
				case tr == "":
					// a blank line of a raw block
				case reLabel.MatchString(nx) && !strings.HasPrefix(nx, "\t"):
					name := reLabel.FindStringSubmatch(nx)[1]
					if l, ok := kwLine[name]; ok {
						mk["known"], mk["lo"], mk["hi"] = true, l, l
					} else {
						ident = name
					}
				case strings.HasPrefix(tr, "@ raw"):
					ident = strings.Fields(tr)[1]
				case strings.HasPrefix(tr, "."):
					if q := strings.Index(tr, `"T`); q >= 0 && strings.Contains(tr[q:], ":") {
						ident = tr[q+1 : q+strings.Index(tr[q:], ":")]
					} else if f := strings.Fields(tr); len(f) == 2 && !strings.Contains(tr, `"`) {
						ident = f[1] // .2byte ITEM_n
					} else if strings.Contains(tr, `"`) {
						// a later line of a text: the construct is the text whose first line carries the identity
						for b := k - 1; b >= 0; b-- {
							pl := strings.TrimSpace(strings.TrimRight(lines[b], "\r"))
							if reMarker.MatchString(pl) {
								continue
							}
							if !strings.HasPrefix(pl, ".") {
								break
							}
							if q := strings.Index(pl, `"T`); q >= 0 && strings.Contains(pl[q:], ":") {
								ident = pl[q+1 : q+strings.Index(pl[q:], ":")]
								break
							}
						}
					}
				default:
					tk := splitToks(tr)
					op := tk[0]
					switch op {
					case "goto_if_set", "goto_if_unset", "checktrainerflag", "compare", "compare_var_to_value", "switch", "case", "map_script", "map_script_2":
						if len(tk) > 1 {
							ident = tk[1]
						}
						if sp, known := spans[ident]; (!known || sp.lo <= 0) && k > 0 && (op == "compare" || op == "compare_var_to_value" || op == "switch") {
							// an AutoVar operand: the command is the line before the marker
							pv := splitToks(strings.TrimSpace(lines[k-1]))
							if len(pv) > 0 && strings.HasPrefix(pv[0], "autoq") {
								ident = pv[0]
							}
						}
					default:
						ident = op
					}
				}
				if sp, ok := spans[ident]; ok && sp.lo > 0 {
					mk["known"], mk["lo"], mk["hi"] = true, sp.lo, sp.hi
				}
			}
			if mk["known"] == true {
				nknown++
			}
			markers = append(markers, mk)
		}
		rec["markers"] = markers
		recs = append(recs, rec)
		if i < 2 {
			c.Sample(map[string]interface{}{"source": src, "output_with_markers": rl.Out})
		}
	}
	var cli []CLICase
	for i := 0; i < 12; i++ {
		f, av := GenFile(r, fc, "")
		src, _ := RenderFile(f, Style{R: r, Layout: i % 3})
		if i%2 == 0 {
			src = "\n\n# leading blank lines and a comment\n\n" + src
		}
		for k := 0; k < 4; k++ {
			cli = append(cli, CLICase{ID: fmt.Sprintf("cli%d.%d", i, k), Src: src, Opts: Opts{Optimize: true, LineMarkers: k < 3, AutoVar: av, FontConfig: repoFontConfig},
				Stdin: k == 1, ToFile: k == 2})
		}
	}
	cliStates := cliCheck(c, cli, "line markers")
	bad, states, ok := runPairCases(c, "LineMarkers", "markers.ndjson", recs)
	states += cliStates
	if !ok {
		return
	}
	for id, why := range bad {
		c.Violate(Violation{What: "line markers not transparent, or a marker names the wrong file/line (" + id + "): " + why, Source: srcOf[id],
			Detail: map[string]interface{}{"output": outOf[id]}})
	}
	c.Cov("evaluations", int64(len(recs)))
	c.Cov("distinct_nontrivial", int64(len(recs)))
	c.CovSet("rule", "seeded files with every construct kind, identity tokens renamed apart, laid out pretty / on one line / with random blanks, newlines, CRLF and comments at every gap; compiled with markers+path, without markers, with markers but no path; every marker is traced to the construct of the following output line through its identity token")
	c.Cov("markers", int64(nmark))
	c.Cov("markers_traced_to_construct", int64(nknown))
	c.Cov("states", states)
}
