package main

import (
	"encoding/json"
	"fmt"
	"os"
	"strings"
	"time"
)

func init() {
	register("C11", "model_checking", checkC11)
}

// autoLeaf makes AutoVar leaf number k (rotating over the configured commands
// and over the written forms).
func autoLeaf(k int, neg bool) *Expr {
	e := &Expr{K: "leaf", Typ: "auto"}
	switch k % 4 {
	case 0:
		e.Toks = []string{"autoa"}
		e.Opnd = "VAR_RESULT"
	case 1:
		e.Toks = []string{"autob", fmt.Sprintf("VAR_T%d", k), ",", "FUNC_X"}
		e.Opnd = fmt.Sprintf("VAR_T%d", k)
	case 2:
		e.Toks = []string{"autoc", fmt.Sprintf("ITEM_%d", k), ",", "2"}
		e.Opnd = "VAR_0x8004"
	default:
		e.Toks = []string{"autod", "1", ",", fmt.Sprintf("VAR_U%d", k), ",", "3"}
		e.Opnd = fmt.Sprintf("VAR_U%d", k)
	}
	if neg {
		e.Form = "not"
		return e
	}
	switch (k / 4) % 4 {
	case 0:
		e.Form = "bare"
	case 1:
		e.Form, e.Op, e.Val = "cmp", "==", "1"
	case 2:
		e.Form, e.Op, e.Val = "cmp", ">=", "VAR_Z + 2"
	default:
		e.Form, e.Op, e.Val, e.Strict = "cmp", "!=", "0x4000", true
	}
	return e
}

// instantiateAuto is instantiate with the leaves in `autos` made AutoVar.
func instantiateAuto(s *exprShape, forms []leafForm, variant int, idx *int, autos map[int]bool, r *Rand) *Expr {
	switch s.K {
	case "not":
		return &Expr{K: "not", E: instantiateAuto(s.E, forms, variant, idx, autos, r)}
	case "and", "or":
		l := instantiateAuto(s.L, forms, variant, idx, autos, r)
		rr := instantiateAuto(s.R, forms, variant, idx, autos, r)
		return &Expr{K: s.K, L: l, R: rr}
	}
	if autos[*idx+1] {
		*idx++
		return autoLeaf(variant+*idx, s.Neg)
	}
	return instantiate(s, forms, variant, idx, r)
}

func checkC11(c *Ctx) {
	shapes, forms, ok := runGenExpr(c, 3)
	if !ok {
		return
	}
	r := NewRand(c.Seed*977 + 11)
	var cases []*RefCase
	rejected := 0
	nprog := 0
	base := Opts{AutoVar: genAutoVar()}
	var progs []struct {
		src string
	}
	reps := 1
	if !c.Quick() {
		reps = 6
	}
	for si, s := range shapes {
		nl := s.leaves()
		// every non-empty subset of leaf positions of size <= 2
		var subsets []map[int]bool
		for a := 1; a <= nl; a++ {
			subsets = append(subsets, map[int]bool{a: true})
			for b := a + 1; b <= nl; b++ {
				subsets = append(subsets, map[int]bool{a: true, b: true})
			}
		}
		for ui, autos := range subsets {
			for rep := 0; rep < reps; rep++ {
				idx := 0
				e := instantiateAuto(s, forms, r.Intn(64), &idx, autos, r)
				kind := (si + ui + rep) % 6
				p := condProgram(fmt.Sprintf("A%d_%d_%d", si, ui, rep), e, kind)
				src := RenderProg(p, Style{R: r, Parens: (si+ui)%2 == 0, Layout: 0})
				nprog++
				compileBoth(c, fmt.Sprintf("a%d.%d.%d", si, ui, rep), p, src, base, &cases, &rejected)
				if nprog%300 == 1 {
					c.Sample(map[string]interface{}{"source": src})
				}
				if nprog%25 == 0 {
					progs = append(progs, struct{ src string }{src})
				}
			}
		}
	}
	// AutoVar as a switch operand, in a few switch shapes and contexts
	for i := 0; i < 24; i++ {
		f := swFam{Ctx: []string{"alone", "first", "last", "inwhile", "indowhile", "inif"}[i%6]}
		pats := [][]string{{"cmd", "cmdbreak"}, {"empty", "cmd", "cmd"}, {"cmd", "empty"}, {"ifbreak", "cmd"}}[i%4]
		for j, b := range pats {
			f.Cases = append(f.Cases, struct {
				IsDef bool   `json:"isdef"`
				Body  string `json:"body"`
			}{IsDef: (i/4)%3 == j, Body: b})
		}
		p := swProgram(fmt.Sprintf("ASW%d", i), &f)
		walkStmts(p.Scripts[0].Body, func(s *Stmt) {
			if s.K == "switch" && s.V == "VAR_S" {
				al := autoLeaf(i, false)
				s.Pre = al.Toks
				s.V = al.Opnd
			}
		})
		src := RenderProg(p, Style{R: r, Layout: 0})
		nprog++
		compileBoth(c, fmt.Sprintf("asw%d", i), p, src, base, &cases, &rejected)
		progs = append(progs, struct{ src string }{src})
	}
	// the GenCtl programs with switches and conditions turned into AutoVar ones (nested switches,
	// AutoVar conditions inside loops and case bodies, ...)
	ctl, ok := cachedGenModule(c, "GenCtl", map[string]int{"Level": 2}, "one.ndjson", "nest.ndjson")
	if !ok {
		return
	}
	nestEvery := 12
	if !c.Quick() {
		nestEvery = 1
	}
	autoProgs := append(ctlPrograms(c, ctl["one.ndjson"], "ao", 2, c.Seed), ctlPrograms(c, ctl["nest.ndjson"], "an", nestEvery, c.Seed)...)
	for i, p := range autoProgs {
		k := 0
		changed := false
		walkStmts(p.Scripts[0].Body, func(s *Stmt) {
			autoExpr := func(e *Expr) {
				walkExpr(e, func(x *Expr) {
					if x.K == "leaf" && x.Typ == "flag" && r.Chance(1, 2) {
						k++
						*x = *autoLeaf(i+k, x.Form == "not")
						changed = true
					}
				})
			}
			switch s.K {
			case "if":
				for j := range s.Arms {
					autoExpr(s.Arms[j].Cond)
				}
			case "while", "dowhile":
				if s.Cond != nil {
					autoExpr(s.Cond)
				}
			case "switch":
				if r.Chance(2, 3) {
					k++
					al := autoLeaf(i+k, false)
					s.Pre, s.V = al.Toks, al.Opnd
					changed = true
				}
			}
		})
		if !changed {
			continue
		}
		src := RenderProg(p, Style{R: r, Layout: 0})
		nprog++
		compileBoth(c, p.Scripts[0].Name, p, src, base, &cases, &rejected)
	}
	// conditions with many operands, every one an AutoVar command
	for _, p := range bigPrograms() {
		if !strings.HasPrefix(p.Scripts[0].Name, "BigCond") && !strings.HasPrefix(p.Scripts[0].Name, "BigWhile") && !strings.HasPrefix(p.Scripts[0].Name, "BigFlat") {
			continue
		}
		k := 0
		walkStmts(p.Scripts[0].Body, func(s *Stmt) {
			auto := func(e *Expr) {
				walkExpr(e, func(x *Expr) {
					if x.K == "leaf" {
						k++
						*x = *autoLeaf(k, x.Form == "not")
					}
				})
			}
			for j := range s.Arms {
				auto(s.Arms[j].Cond)
			}
			if s.Cond != nil {
				auto(s.Cond)
			}
		})
		compileBoth(c, p.Scripts[0].Name, p, RenderProg(p, Style{R: r}), base, &cases, &rejected)
	}
	// AutoVar commands that take inline text (yes/no boxes ...) as conditions, alone and as first /
	// middle / last operand of && and || chains: "the same rendering it would have as a statement"
	nf := 80
	if !c.Quick() {
		nf = 2500
	}
	fileRefineCases(c, r, nf, FileCfg{MaxTops: 2, Inline: true, AutoInline: true, Kinds: []string{"script", "script", "text"},
		Ctl: GenCfg{MaxDepth: 2, MaxStmts: 3, MaxLeaves: 4, Switches: true}}, "ad", &cases, &rejected)
	st := RunRefine(c, cases, 6000, "AutoVar command not run exactly once, in order, before comparing its var", nil)

	// Binding of the CLI path: the real binary, given the same config through its
	// -cc JSON loader, must produce the text the verdicts above were computed on.
	dir, err := newScratch("c11cc")
	if err == nil {
		defer os.RemoveAll(dir)
		ccPath, _ := writeAutoVarConfig(dir, base.AutoVar)
		cli := 0
		for _, pr := range progs {
			for _, opt := range []bool{true, false} {
				o := base
				o.Optimize = opt
				want := Compile(pr.src, o)
				if want.Err != nil {
					continue
				}
				so, se, exit, to := RunBinary(c.Bin, pr.src, []string{"-cc", ccPath, "-lm=false", fmt.Sprintf("-optimize=%v", opt)}, 10*time.Second)
				cli++
				if to || exit != 0 || so != want.Out {
					c.Violate(Violation{What: "poryscript binary with -cc <json> does not produce the output of the library with the same command config",
						Source: pr.src, Opts: &o, Detail: map[string]interface{}{"stderr": se, "exit": exit, "stdout": so, "library": want.Out}})
				}
			}
		}
		c.Cov("cli_runs_compared", int64(cli))
	}
	c.Cov("programs", int64(nprog))
	c.Cov("cases", int64(st.Cases))
	c.Cov("rejected_by_compiler", int64(rejected))
	c.Cov("states", st.States)
	c.Cov("transitions", st.Generated)
	c.Cov("traces_validated_against_impl", int64(st.Cases))
	cfgJSON, _ := json.Marshal(base.AutoVar)
	c.CovSet("command_config", strings.TrimSpace(string(cfgJSON)))
	if rejected > 0 {
		o := rejectedExample.o
		c.Violate(Violation{What: fmt.Sprintf("%d well-formed AutoVar programs were rejected by the compiler (first: %s)", rejected, rejectedExample.err), Source: rejectedExample.src, Opts: &o})
	}
}
