package main

import (
	"encoding/json"
	"fmt"
	"regexp"
	"strings"
)

// a line break inside a literal with the blanks after it
var reLitBreak = regexp.MustCompile(`[\n\r][ \t\n\r]*`)

func init() {
	register("C09", "exploration", checkC09)
	register("C14", "exploration", checkC14)
}

// defLines returns the directive lines under a label of a parsed output:
// (found exactly once, lines as [dir, content]).
func defLines(pa *ParsedAsm, name string) (bool, []map[string]interface{}) {
	count := 0
	var lines []map[string]interface{}
	for i, ln := range pa.Lines {
		if ln["k"] == "label" && ln["name"] == name {
			count++
			if count > 1 {
				continue
			}
			for j := i + 1; j < len(pa.Lines) && pa.Lines[j]["k"] == "data"; j++ {
				rest := pa.Lines[j]["rest"].(string)
				content := rest
				if m := reQuoted.FindStringSubmatch(rest); m != nil {
					content = m[1]
				} else {
					content = "<unquoted>" + rest
				}
				lines = append(lines, map[string]interface{}{"dir": pa.Lines[j]["dir"], "content": content})
			}
		}
	}
	if lines == nil {
		lines = []map[string]interface{}{}
	}
	return count == 1, lines
}

type textFam struct {
	Content string `json:"content"`
	Type    string `json:"type"`
}

func checkC09(c *Ctx) {
	maxLen := 3
	if !c.Quick() {
		maxLen = 4
	}
	fam, ok := cachedGenModule(c, "GenText", map[string]int{"MaxLen": maxLen}, "texts.ndjson")
	if !ok {
		return
	}
	r := NewRand(c.Seed*3571 + 9)
	var texts []textFam
	for _, ln := range fam["texts.ndjson"] {
		var t textFam
		if json.Unmarshal([]byte(ln), &t) != nil {
			c.Fatal("bad GenText line")
			return
		}
		t.Content = strings.ReplaceAll(t.Content, "E", "é")
		// the ordinary letter, in rotating shapes: characters that mean something to fmt or to the assembler but nothing to poryscript
		for k := 0; strings.Contains(t.Content, "a"); k++ {
			t.Content = strings.Replace(t.Content, "a", []string{"A", "%", "A", "%s", "100% s", "A", "%d%%", "'", "A", "%!"}[(len(texts)+k)%10], 1)
		}
		for strings.Contains(t.Content, "H") {
			t.Content = strings.Replace(t.Content, "H", []string{"#", "//", "# ", "//x"}[len(texts)%4], 1)
		}
		// a line break inside the quotes, in rotating shapes
		for strings.Contains(t.Content, "N") {
			t.Content = strings.Replace(t.Content, "N", []string{"\n", "\n    ", "\r\n  ", "\n\n\t ", " \n", "\n\u3000", "\n  \u00a0"}[len(texts)%7], 1)
		}
		texts = append(texts, t)
	}
	// every family member appears as a single-part text in a rotating origin;
	// multi-part texts are built from random members (more of them when thorough)
	type item struct {
		parts  []string
		typ    string
		origin string
	}
	// "pair": the text is the LAST of two inline texts of one command, after a companion of another type
	origins := []string{"inline", "textstmt", "poryswitch", "format", "inlineformat", "poryswitch_default", "pair"}
	var items []item
	for i, t := range texts {
		items = append(items, item{[]string{t.Content}, t.Type, origins[(i+int(c.Seed))%len(origins)]})
	}
	nmulti := 600
	if !c.Quick() {
		nmulti = 40000
		for i, t := range texts {
			for k := 1; k < len(origins); k++ {
				items = append(items, item{[]string{t.Content}, t.Type, origins[(i+k+int(c.Seed))%len(origins)]})
			}
		}
	}
	for i := 0; i < nmulti; i++ {
		n := 2 + r.Intn(2)
		var parts []string
		for k := 0; k < n; k++ {
			parts = append(parts, texts[r.Intn(len(texts))].Content)
		}
		items = append(items, item{parts, r.Pick([]string{"", "ascii", "braille", "custom"}), []string{"inline", "textstmt", "poryswitch", "format", "pair"}[r.Intn(5)]})
	}
	// very long lines (beyond 255 / 256 / 1024 bytes), with codes and multi-byte letters near the boundaries
	for _, n := range []int{250, 254, 255, 256, 300, 1100} {
		line := strings.Repeat("ab{PLAYER}é\\p", n/14+1)
		line = line[:n-n%14] + strings.Repeat("z", n%14)
		for _, org := range []string{"inline", "textstmt"} {
			items = append(items, item{[]string{line}, []string{"", "ascii"}[n%2], org})
		}
	}
	// texts of many parts (two-digit line counts)
	for _, n := range []int{10, 11, 24} {
		var parts []string
		for k := 0; k < n; k++ {
			parts = append(parts, fmt.Sprintf("line %d\\n", k))
		}
		for _, org := range []string{"inline", "textstmt", "poryswitch", "pair"} {
			items = append(items, item{parts, []string{"", "ascii", "braille", "custom"}[n%4], org})
		}
	}
	var recs []map[string]interface{}
	srcOf := map[string]string{}
	outOf := map[string]string{}
	sw := map[string]string{"GAME": "RUBY"}
	const perFile = 16
	for base := 0; base < len(items); base += perFile {
		end := base + perFile
		if end > len(items) {
			end = len(items)
		}
		f := &File{}
		script := Top{K: "script", Name: fmt.Sprintf("S%d", base)}
		type want struct {
			label string // "" = look up through the command
			cmd   string
			it    item
			parts []string
		}
		var wants []want
		for k, it := range items[base:end] {
			name := fmt.Sprintf("T%d_%d", base, k)
			switch it.origin {
			case "inline", "inlineformat":
				cmd := fmt.Sprintf("m%d_%d", base, k)
				in := Inline{Kind: "text", Parts: it.parts, Type: it.typ, IsFmt: it.origin == "inlineformat"}
				script.Body = append(script.Body, Stmt{K: "cmd", Toks: []string{cmd, "@inl0"}, Inl: []Inline{in}})
				wants = append(wants, want{cmd: cmd, it: it})
			case "pair":
				cmd := fmt.Sprintf("m%d_%d", base, k)
				comp := Inline{Kind: "text", Parts: []string{fmt.Sprintf("companion %d", k)}, Type: []string{"ascii", "braille", "custom", ""}[(k+base/perFile)%4]}
				in := Inline{Kind: "text", Parts: it.parts, Type: it.typ}
				script.Body = append(script.Body, Stmt{K: "cmd", Toks: []string{cmd, "@inl0", ",", "7", ",", "@inl1"}, Inl: []Inline{comp, in}})
				wants = append(wants, want{cmd: cmd, it: it})
			case "textstmt", "format":
				f.Tops = append(f.Tops, Top{K: "text", Name: name, Text: &TextLit{Parts: it.parts, Type: it.typ, IsFmt: it.origin == "format"}})
				wants = append(wants, want{label: name, it: it})
			default:
				sel := TextPSCase{Val: "RUBY", Brace: k%2 == 0, Text: TextLit{Parts: it.parts, Type: it.typ}}
				if it.origin == "poryswitch_default" {
					sel.Val = "_"
				}
				other := TextPSCase{Val: "EMERALD", Brace: k%3 == 0, Text: TextLit{Parts: []string{"other"}, Type: []string{"", "ascii", "custom"}[k%3]}}
				cases := []TextPSCase{other, sel}
				if k%4 < 2 {
					cases = []TextPSCase{sel, other}
				}
				f.Tops = append(f.Tops, Top{K: "text", Name: name, Text: &TextLit{PS: &TextPS{Switch: "GAME", Cases: cases}}})
				wants = append(wants, want{label: name, it: it})
			}
		}
		f.Tops = append([]Top{script}, f.Tops...)
		src, _ := RenderFile(f, Style{R: r, Layout: (base / perFile) % 3})
		o := Opts{Optimize: true, Switches: sw, FontConfig: repoFontConfig}
		res := Compile(src, o)
		fid := fmt.Sprintf("file%d", base)
		srcOf[fid] = src
		if res.Panic != "" || res.TimedOut {
			c.Violate(Violation{What: "compiler panicked or hung", Source: src, Opts: &o, Detail: map[string]interface{}{"panic": res.Panic}})
			continue
		}
		if res.Err != nil {
			c.Violate(Violation{What: "well-formed texts rejected: " + res.Err.Error(), Source: src, Opts: &o})
			continue
		}
		outOf[fid] = res.Out
		pa := ParseAsm(res.Out)
		cmdArg := map[string]string{}
		for _, ln := range pa.Lines {
			if ln["k"] == "ins" {
				if a := ln["a"].([]string); len(a) >= 1 {
					cmdArg[ln["op"].(string)] = a[len(a)-1] // the text under test is the last argument
				}
			}
		}
		for k, w := range wants {
			label := w.label
			if label == "" {
				label = cmdArg[w.cmd]
			}
			parts := []string{}
			isFmt := w.it.origin == "format" || w.it.origin == "inlineformat"
			fmtin := ""
			if isFmt {
				den := make([]string, len(w.it.parts))
				for i, p := range w.it.parts {
					den[i] = reLitBreak.ReplaceAllString(p, " ")
				}
				fmtin = strings.Join(den, "\n")
				ft, err := realFormat(fmtin, "")
				if err != nil {
					c.Fatal("real FormatText failed: %v", err)
					return
				}
				parts = strings.Split(ft, "\n")
			}
			found, lines := defLines(pa, label)
			recs = append(recs, map[string]interface{}{"id": fmt.Sprintf("%s#%d", fid, k), "parts": parts, "written": w.it.parts, "fmt": isFmt, "fmtin": fmtin, "type": w.it.typ,
				"origin": w.it.origin, "found": found && label != "", "lines": lines})
		}
		if base == 0 {
			c.Sample(map[string]interface{}{"source": src, "output": res.Out})
		}
	}
	// the same texts through the real binary (stdout and -o), incl. contents that a careless
	// output routine would mangle
	var cli []CLICase
	for i, txt := range []string{"Everything is 50% off today!", "Save 20%$", "100%s sure %d %v %%", "tab\\there", "a\\nb %"} {
		src := fmt.Sprintf("script S%d {\n    msgbox(\"%s\")\n    rawcmd(%d %% 3)\n}\ntext T%d {\n    ascii\"%s\"\n}\nraw `@ 5%% raw`\n", i, txt, i, i, txt)
		for k := 0; k < 4; k++ {
			cli = append(cli, CLICase{ID: fmt.Sprintf("cli%d.%d", i, k), Src: src, Opts: Opts{Optimize: true}, Stdin: k%2 == 0, ToFile: k >= 2})
		}
	}
	cliStates := cliCheck(c, cli, "text emission")
	bad, states, ok := runPairCases(c, "TextEmit", "texts.ndjson", recs)
	states += cliStates
	if !ok {
		return
	}
	seen := map[string]bool{}
	for id := range bad {
		fid := id[:strings.Index(id, "#")]
		if seen[fid] {
			continue
		}
		seen[fid] = true
		c.Violate(Violation{What: "a text is not emitted line by line with exactly one correct terminator (" + id + ")", Source: srcOf[fid],
			Detail: map[string]interface{}{"output": outOf[fid]}})
	}
	c.Cov("evaluations", int64(len(recs)))
	c.Cov("distinct_nontrivial", int64(len(recs)))
	c.CovSet("rule", "every content of length <= 3 (4 when thorough) over {$ \\ 0 letter-or-% \\n multi-byte, a line break inside the quotes, a comment opener} x 4 string types (enumerated by TLC from GenText.tla) as single-part text in rotating origins (inline, text statement, poryswitch case matched / by default, format() in both positions), plus seeded multi-part literals; a case is one text, distinct by construction")
	c.Cov("states", states)
	c.CovSet("exhaustive_single_part_contents", len(texts))
}

// ---------------------------------------------------------------------------

type listFam []struct {
	Name string `json:"name"`
	Mul  string `json:"mul"`
}

func mulValue(m string) (int, bool) {
	if m == "" {
		return 1, true
	}
	var v int64
	neg := false
	s := m
	if strings.HasPrefix(s, "-") {
		neg = true
		s = s[1:]
	}
	if strings.HasPrefix(s, "0x") {
		fmt.Sscanf(s[2:], "%x", &v)
	} else {
		fmt.Sscanf(s, "%d", &v)
	}
	if neg {
		v = -v
	}
	return int(v), v >= 1 && v <= 9999
}

func checkC14(c *Ctx) {
	maxLen := 3
	if !c.Quick() {
		maxLen = 5
	}
	fam, ok := cachedGenModule(c, "GenList", map[string]int{"MaxLen": maxLen}, "lists.ndjson")
	if !ok {
		return
	}
	r := NewRand(c.Seed*2887 + 14)
	var recs []map[string]interface{}
	srcOf := map[string]string{}
	outOf := map[string]string{}
	// long lists (two- and three-digit counts of emitted lines)
	lists := append([]string{}, fam["lists.ndjson"]...)
	for _, n := range []int{10, 12, 40, 130} {
		var sb strings.Builder
		sb.WriteString("[")
		for k := 0; k < n; k++ {
			if k > 0 {
				sb.WriteString(",")
			}
			mul := ""
			if k%5 == 2 {
				mul = fmt.Sprint(2 + k%7)
			}
			name := []string{"a", "b"}[k%2]
			if n == 40 && k == 33 {
				name = "T" // an explicit terminator late in a long list
			}
			fmt.Fprintf(&sb, `{"name":%q,"mul":%q}`, name, mul)
		}
		sb.WriteString("]")
		lists = append(lists, sb.String())
	}
	for _, m := range []int{31, 32, 33, 63, 64, 65, 100, 127, 128, 129, 255, 256, 257, 300, 512, 1000, 4096, 9999} {
		lists = append(lists, fmt.Sprintf(`[{"name":"b","mul":""},{"name":"a","mul":"%d"},{"name":"b","mul":"2"}]`, m),
			fmt.Sprintf(`[{"name":"a","mul":"%d"}]`, m))
	}
	for i, ln := range lists {
		var lf listFam
		if json.Unmarshal([]byte(ln), &lf) != nil {
			c.Fatal("bad GenList line")
			return
		}
		kinds := []string{"movement", "moves", "mart"}
		hasMul := false
		for _, e := range lf {
			if e.Mul != "" {
				hasMul = true
			}
		}
		if hasMul {
			kinds = kinds[:2] // marts have no multipliers
		}
		for _, kind := range kinds {
			names := map[string]string{"a": "walk_up", "b": "face_left", "T": "step_end"}
			if kind == "mart" {
				names = map[string]string{"a": "ITEM_POTION", "b": "ITEM_BALL", "T": "ITEM_NONE"}
			}
			var items []ListItem
			model := []map[string]interface{}{}
			for _, e := range lf {
				items = append(items, ListItem{Name: names[e.Name], Mul: e.Mul, Comma: kind != "mart" && r.Chance(1, 3)})
				v, okm := mulValue(e.Mul)
				if !okm {
					v = 1
				}
				model = append(model, map[string]interface{}{"name": names[e.Name], "mul": v, "mulok": okm})
			}
			// sometimes route part of the list through a poryswitch (selected case)
			if r.Chance(1, 4) && len(items) > 1 {
				k := r.Intn(len(items))
				sel := items[k]
				sel.Comma = false
				items[k] = ListItem{PS: &ListPS{Switch: "GAME", Cases: []ListPSCase{
					{Val: "EMERALD", Brace: true, Items: []ListItem{{Name: names["b"]}, {Name: names["T"]}}},
					{Val: "RUBY", Brace: r.Chance(1, 2), Items: []ListItem{sel}}}}}
			}
			// sometimes a poryswitch whose selected case is empty, next to a non-empty default
			if r.Chance(1, 4) {
				k := r.Intn(len(items) + 1)
				empty := ListItem{PS: &ListPS{Switch: "GAME", Cases: []ListPSCase{
					{Val: "RUBY", Brace: true, Items: []ListItem{}},
					{Val: "_", Brace: true, Items: []ListItem{{Name: names["b"]}, {Name: names["T"]}}}}}}
				if r.Chance(1, 2) {
					empty.PS.Cases[0], empty.PS.Cases[1] = empty.PS.Cases[1], empty.PS.Cases[0]
				}
				items = append(items[:k], append([]ListItem{empty}, items[k:]...)...)
			}
			id := fmt.Sprintf("l%d.%s", i, kind)
			f := &File{}
			// mart items may be written through constants (also one that aliases the terminator)
			var consts []Top
			if kind == "mart" && r.Chance(1, 2) {
				alias := map[string]string{}
				for k := range items {
					if items[k].PS != nil || !r.Chance(1, 2) {
						continue
					}
					n := items[k].Name
					if _, ok := alias[n]; !ok {
						alias[n] = fmt.Sprintf("K_%d_%d", i, len(alias))
						consts = append(consts, Top{K: "const", Name: alias[n], Val: []string{n}})
					}
					items[k].Name = alias[n]
				}
			}
			label := "L" + fmt.Sprint(i)
			switch kind {
			case "movement":
				f.Tops = []Top{{K: "movement", Name: label, Items: items}}
			case "mart":
				f.Tops = append(consts, Top{K: "mart", Name: label, Items: items})
			default:
				// an earlier moves() in the same script that differs from this one only in one
				// multiplier: the two lists must not be confused
				var sib []ListItem
				for _, it := range items {
					if it.PS == nil {
						sib = append(sib, ListItem{Name: it.Name, Mul: it.Mul})
					}
				}
				body := []Stmt{}
				if len(sib) > 0 {
					k := r.Intn(len(sib))
					v, okm := mulValue(sib[k].Mul)
					switch {
					case !okm || sib[k].Mul == "":
						sib[k].Mul = "2"
					case v < 9999:
						sib[k].Mul = fmt.Sprint(v + 1)
					default:
						sib[k].Mul = fmt.Sprint(v - 1)
					}
					body = append(body, Stmt{K: "cmd", Toks: []string{"mvA", "OBJ", ",", "@inl0"}, Inl: []Inline{{Kind: "moves", Steps: sib}}})
					// and one in which "step * n" is a single step whose name ends in the digits of n
					var sib2 []ListItem
					changed := false
					for _, it := range items {
						if it.PS != nil {
							continue
						}
						v, okm := mulValue(it.Mul)
						if !changed && okm && it.Mul != "" && v >= 2 {
							sib2 = append(sib2, ListItem{Name: it.Name + fmt.Sprint(v)})
							changed = true
						} else {
							sib2 = append(sib2, ListItem{Name: it.Name, Mul: it.Mul})
						}
					}
					if changed {
						body = append(body, Stmt{K: "cmd", Toks: []string{"mvC", "OBJ", ",", "@inl0"}, Inl: []Inline{{Kind: "moves", Steps: sib2}}})
					}
				}
				body = append(body, Stmt{K: "cmd", Toks: []string{"mvB", "OBJ", ",", "@inl0"}, Inl: []Inline{{Kind: "moves", Steps: items}}})
				f.Tops = []Top{{K: "script", Name: "S", Body: body}}
				label = "@mvB"
			}
			src, _ := RenderFile(f, Style{R: r, Layout: i % 3})
			o := Opts{Optimize: true, Switches: map[string]string{"GAME": "RUBY"}}
			res := Compile(src, o)
			srcOf[id] = src
			if res.Panic != "" || res.TimedOut {
				c.Violate(Violation{What: "compiler panicked or hung", Source: src, Opts: &o, Detail: map[string]interface{}{"panic": res.Panic}})
				continue
			}
			rec := map[string]interface{}{"id": id, "kind": kind, "items": model, "err": res.Err != nil,
				"found": false, "rle": []string{}, "aligned": false, "all2byte": false}
			if res.Err == nil {
				outOf[id] = res.Out
				pa := ParseAsm(res.Out)
				if label == "@mvB" {
					// the label the real output passes to the second command
					for _, l := range pa.Lines {
						if l["k"] == "ins" && l["op"] == "mvB" {
							if a := l["a"].([]string); len(a) > 0 {
								label = a[len(a)-1]
							}
						}
					}
				}
				rle := []map[string]interface{}{}
				all2 := true
				for k, l := range pa.Lines {
					if l["k"] == "label" && l["name"] == label {
						rec["found"] = true
						rec["aligned"] = k > 0 && pa.Lines[k-1]["k"] == "data" && pa.Lines[k-1]["dir"] == ".align" && pa.Lines[k-1]["rest"] == "2"
						for j := k + 1; j < len(pa.Lines) && pa.Lines[j]["k"] != "label"; j++ {
							x := pa.Lines[j]
							name := ""
							if x["k"] == "data" {
								if x["dir"] != ".2byte" {
									all2 = false
								}
								name = x["rest"].(string)
							} else {
								all2 = false
								name = strings.Join(x["toks"].([]string), " ")
							}
							if n := len(rle); n > 0 && rle[n-1]["name"] == name {
								rle[n-1]["n"] = rle[n-1]["n"].(int) + 1
							} else {
								rle = append(rle, map[string]interface{}{"name": name, "n": 1})
							}
						}
						break
					}
				}
				rec["rle"] = rle
				rec["all2byte"] = all2
			} else {
				outOf[id] = res.Err.Error()
			}
			recs = append(recs, rec)
			if len(recs) == 5 {
				c.Sample(map[string]interface{}{"source": src, "output": res.Out})
			}
		}
	}
	bad, states, ok := runPairCases(c, "ListEmit", "lists.ndjson", recs)
	if !ok {
		return
	}
	for id := range bad {
		c.Violate(Violation{What: "movement/mart list not expanded, ordered and terminated exactly once (or bad multiplier not rejected)", Source: srcOf[id],
			Detail: map[string]interface{}{"output_or_error": outOf[id]}})
	}
	c.Cov("evaluations", int64(len(recs)))
	c.Cov("distinct_nontrivial", int64(len(recs)))
	c.CovSet("rule", "every list of <= MaxLen entries over {step, step, terminator} x multiplier {none,2,3} plus boundary multipliers {0,1,9999,10000,0x10,-1,0x270F,0x2710} (enumerated by TLC from GenList.tla), as movement statement, moves() argument and mart; a case is one list in one position")
	c.Cov("states", states)
	c.CovSet("exhaustive", true)
	c.CovSet("max_len", maxLen)
}
