package main

// The GenCtl family (spec/GenCtl.tla): loading, caching and renaming apart.

import (
	"crypto/sha1"
	"encoding/json"
	"fmt"
	"os"
	"path/filepath"
	"sort"
	"strings"
)

// cachedGenModule is runGenModule with an on-disk cache keyed by the module's
// text and constants (the families depend on nothing else).
func cachedGenModule(c *Ctx, module string, consts map[string]int, outputs ...string) (map[string][]string, bool) {
	spec, err := os.ReadFile(filepath.Join(verifRoot, "spec", module+".tla"))
	if err != nil {
		c.Fatal("reading %s.tla: %v", module, err)
		return nil, false
	}
	keys := make([]string, 0, len(consts))
	for k, v := range consts {
		keys = append(keys, fmt.Sprintf("%s=%d", k, v))
	}
	sort.Strings(keys)
	h := sha1.Sum(append(spec, []byte(strings.Join(keys, ","))...))
	dir := filepath.Join(verifRoot, ".work", "fam", fmt.Sprintf("%s-%x", module, h[:8]))
	out := map[string][]string{}
	ok := true
	for _, f := range outputs {
		b, err := os.ReadFile(filepath.Join(dir, f))
		if err != nil {
			ok = false
			break
		}
		for _, ln := range strings.Split(string(b), "\n") {
			if strings.TrimSpace(ln) != "" {
				out[f] = append(out[f], ln)
			}
		}
	}
	if ok {
		return out, true
	}
	out, ok = runGenModule(c, module, consts, outputs...)
	if !ok {
		return nil, false
	}
	os.MkdirAll(dir, 0o755)
	for _, f := range outputs {
		tmp := filepath.Join(dir, fmt.Sprintf(".%s.%d", f, os.Getpid()))
		if os.WriteFile(tmp, []byte(strings.Join(out[f], "\n")+"\n"), 0o644) == nil {
			os.Rename(tmp, filepath.Join(dir, f))
		}
	}
	return out, true
}

// renameApart gives every command, flag and label of a body its own name and
// points each goto(L) at a label of the body (round-robin), or outside.
func renameApart(body []Stmt, prefix string) {
	nc, nf, nl := 0, 0, 0
	var labels []string
	walkStmts(body, func(s *Stmt) {
		if s.K == "label" {
			nl++
			s.Name = fmt.Sprintf("%sL%d", prefix, nl)
			labels = append(labels, s.Name)
		}
	})
	ng := 0
	walkStmts(body, func(s *Stmt) {
		switch s.K {
		case "cmd":
			switch s.Toks[0] {
			case "c":
				nc++
				s.Toks = []string{fmt.Sprintf("c%d", nc)}
			case "goto":
				if len(s.Toks) == 2 && s.Toks[1] == "L" {
					if len(labels) > 0 {
						s.Toks = []string{"goto", labels[ng%len(labels)]}
						ng++
					} else {
						s.Toks = []string{"goto", "Nowhere"}
					}
				}
			}
		case "if":
			for i := range s.Arms {
				walkExpr(s.Arms[i].Cond, func(e *Expr) {
					if e.K == "leaf" {
						nf++
						e.Opnd = fmt.Sprintf("FLAG_%d", nf)
					}
				})
			}
		case "while", "dowhile":
			walkExpr(s.Cond, func(e *Expr) {
				if e.K == "leaf" {
					nf++
					e.Opnd = fmt.Sprintf("FLAG_%d", nf)
				}
			})
		case "switch":
			s.V = "VAR_" + s.V
		}
	})
}

// ctlPrograms turns family lines (JSON arrays of statements) into programs:
// the body as a script followed by a second script (so that a run-off has
// something to run into).  every selects each every-th member, rotated by seed.
func ctlPrograms(c *Ctx, lines []string, tag string, every int, seed int64) []*Prog {
	var out []*Prog
	for i, ln := range lines {
		if !sampled(i, seed, every) {
			continue
		}
		var body []Stmt
		if err := json.Unmarshal([]byte(ln), &body); err != nil {
			c.Fatal("bad GenCtl line: %v", err)
			return out
		}
		normalizeStmts(body)
		name := fmt.Sprintf("G%s%d", tag, i)
		renameApart(body, name+"_")
		p := &Prog{Scripts: []Script{{Name: name, Body: body},
			{Name: name + "Next", Body: []Stmt{{K: "cmd", Toks: []string{"nextscript"}}}}}}
		out = append(out, p)
	}
	return out
}

// normalizeStmts fills in nil slices after JSON decoding.
func normalizeStmts(body []Stmt) {
	for i := range body {
		s := &body[i]
		for j := range s.Arms {
			if s.Arms[j].Body == nil {
				s.Arms[j].Body = []Stmt{}
			}
			normalizeStmts(s.Arms[j].Body)
		}
		if s.Els == nil {
			s.Els = []Stmt{}
		}
		normalizeStmts(s.Els)
		if s.Body == nil {
			s.Body = []Stmt{}
		}
		normalizeStmts(s.Body)
		for j := range s.Cases {
			if s.Cases[j].Body == nil {
				s.Cases[j].Body = []Stmt{}
			}
			normalizeStmts(s.Cases[j].Body)
		}
	}
}
