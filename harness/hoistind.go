package main

// ./check hoistind : the invariants of the hoisting design proved inductive with Apalache
// (spec/HoistInd.tla): Init => IndInv (length 0) and IndInv /\ Next => IndInv' (length 1 from
// IndInit), one Apalache run per conjunct, in parallel.  A model-level result (no compiler code
// is involved); HoistTrace binds the model to the compiler.  Also run by `./check C06 --tier thorough`.

import (
	"fmt"
	"os"
	"os/exec"
	"path/filepath"
	"strings"
	"sync"
	"time"
)

func init() {
	register("hoistind", "other", func(c *Ctx) {
		ok, msg := runHoistInd(c, c.Quick())
		fmt.Println(msg)
		c.CovSet("explanation", msg)
		c.Cov("evaluations", 12)
		c.Cov("distinct_nontrivial", 12)
		if !ok {
			c.Fatal("inductive invariant of HoistInd.tla not established: %s", msg)
		}
	})
}

var hoistIndConjuncts = []string{"S1", "S2", "S3", "S5", "M1", "M2", "Bijection", "DistinctDefs", "G1", "G1b", "G2"}

func apalache(dir string, limit time.Duration, args ...string) (string, error) {
	cmd := exec.Command("timeout", append([]string{fmt.Sprint(int(limit.Seconds())), "apalache-mc"}, args...)...)
	cmd.Dir = dir
	// Apalache's parser leaves a SANY* directory per run in java.io.tmpdir: keep it inside the scratch directory
	os.MkdirAll(filepath.Join(dir, "tmp"), 0o755)
	cmd.Env = append(os.Environ(), "JAVA_TOOL_OPTIONS=-Djava.io.tmpdir="+filepath.Join(dir, "tmp"), "TMPDIR="+filepath.Join(dir, "tmp"))
	out, err := cmd.CombinedOutput()
	return string(out), err
}

// runHoistInd returns (established, one-line report).
func runHoistInd(c *Ctx, small bool) (bool, string) {
	if _, err := exec.LookPath("apalache-mc"); err != nil {
		return false, "apalache-mc not found"
	}
	dir, err := newScratch("hoistind")
	if err != nil {
		return false, err.Error()
	}
	defer os.RemoveAll(dir)
	b, err := os.ReadFile(filepath.Join(verifRoot, "spec", "HoistInd.tla"))
	if err != nil {
		return false, err.Error()
	}
	os.WriteFile(filepath.Join(dir, "HoistInd.tla"), b, 0o644)
	cinit, indinit, keys := "CInit", "IndInit", 12
	if small {
		cinit, indinit, keys = "CInitSmall", "IndInitSmall", 8
	}
	t0 := time.Now()
	out, _ := apalache(dir, 10*time.Minute, "check", "--cinit="+cinit, "--init=Init", "--inv=IndInv", "--length=0", "--out-dir=out.base", "HoistInd.tla")
	if !strings.Contains(out, "The outcome is: NoError") {
		return false, "base case (Init => IndInv) failed: " + tail(out, 600)
	}
	var wg sync.WaitGroup
	res := make([]string, len(hoistIndConjuncts))
	for i, inv := range hoistIndConjuncts {
		wg.Add(1)
		go func(i int, inv string) {
			defer wg.Done()
			o, _ := apalache(dir, 40*time.Minute, "check", "--cinit="+cinit, "--init="+indinit, "--inv="+inv, "--length=1", "--out-dir=out."+inv, "HoistInd.tla")
			switch {
			case strings.Contains(o, "The outcome is: NoError"):
				res[i] = "ok"
			case strings.Contains(o, "violated"):
				res[i] = "not inductive"
			default:
				res[i] = "undecided: " + tail(o, 200)
			}
		}(i, inv)
	}
	wg.Wait()
	bad := []string{}
	for i, r := range res {
		if r != "ok" {
			bad = append(bad, hoistIndConjuncts[i]+": "+r)
		}
	}
	if len(bad) > 0 {
		return false, strings.Join(bad, "; ")
	}
	return true, fmt.Sprintf("hoistind: Apalache established Init => IndInv and IndInv /\\ Next => IndInv' for all %d conjuncts (%d keys, unbounded counters) in %.0fs",
		len(hoistIndConjuncts), keys, time.Since(t0).Seconds())
}

// ./check formatsym : FormatTextSym.tla - the filler's invariants with symbolic widths and
// parameters (Apalache, bounded list length: 8 tokens quick, 12 thorough).  Model-level.
func init() {
	register("formatsym", "other", func(c *Ctx) {
		ok, msg := runFormatSym(c, c.Quick())
		fmt.Println(msg)
		c.CovSet("explanation", msg)
		c.Cov("evaluations", 4)
		c.Cov("distinct_nontrivial", 4)
		if !ok {
			c.Fatal("FormatTextSym: %s", msg)
		}
	})
}

func runFormatSym(c *Ctx, small bool) (bool, string) {
	if _, err := exec.LookPath("apalache-mc"); err != nil {
		return false, "apalache-mc not found"
	}
	dir, err := newScratch("formatsym")
	if err != nil {
		return false, err.Error()
	}
	defer os.RemoveAll(dir)
	for _, f := range []string{"FormatStep.tla", "FormatTextSym.tla"} {
		b, err := os.ReadFile(filepath.Join(verifRoot, "spec", f))
		if err != nil {
			return false, err.Error()
		}
		os.WriteFile(filepath.Join(dir, f), b, 0o644)
	}
	init, k := "Init12", 12
	if small {
		init, k = "Init8", 8
	}
	invs := []string{"Fits", "Discipline", "MovedOnlyIfNeeded", "WidthBook"}
	res := make([]string, len(invs))
	var wg sync.WaitGroup
	t0 := time.Now()
	for i, inv := range invs {
		wg.Add(1)
		go func(i int, inv string) {
			defer wg.Done()
			o, _ := apalache(dir, 40*time.Minute, "check", "--init="+init, "--next=Next", "--inv="+inv, fmt.Sprintf("--length=%d", k+1), "--out-dir=out."+inv, "FormatTextSym.tla")
			switch {
			case strings.Contains(o, "The outcome is: NoError"):
				res[i] = "ok"
			case strings.Contains(o, "violated"):
				res[i] = "violated"
			default:
				res[i] = "undecided: " + tail(o, 200)
			}
		}(i, inv)
	}
	wg.Wait()
	bad := []string{}
	for i, r := range res {
		if r != "ok" {
			bad = append(bad, invs[i]+": "+r)
		}
	}
	if len(bad) > 0 {
		return false, strings.Join(bad, "; ")
	}
	return true, fmt.Sprintf("formatsym: Apalache found no violation of Fits, Discipline, MovedOnlyIfNeeded, WidthBook for any token list of <= %d tokens with arbitrary non-negative widths and parameters (%.0fs)", k, time.Since(t0).Seconds())
}
