package main

import (
	"bytes"
	"path/filepath"
	"regexp"

	"crypto/sha1"
	"fmt"
	"github.com/huderlem/poryscript/parser"
	"os"
	"os/exec"
	"sort"
	"strings"
	"sync"
	"time"
)

func init() {
	register("C17", "exploration", checkC17)
}

type sessInput struct {
	src string
	o   Opts
}

var scratchDirs []string

func unoptOf(o Opts) Opts {
	o.Optimize = false
	return o
}

func optsKey(o Opts) string {
	var sw []string
	for k, v := range o.Switches {
		sw = append(sw, k+"="+v)
	}
	sort.Strings(sw)
	var av []string
	for k, v := range o.AutoVar {
		p := -1
		if v.ArgPos != nil {
			p = *v.ArgPos
		}
		av = append(av, fmt.Sprintf("%s:%s:%d", k, v.VarName, p))
	}
	sort.Strings(av)
	return fmt.Sprintf("opt=%v lm=%v path=%s sw=%v fc=%s f=%s l=%d lint=%v av=%v", o.Optimize, o.LineMarkers, o.InputPath, sw, o.FontConfig, o.FontID, o.MaxLine, o.Lint, av)
}

func digestOf(res Result) string {
	h := sha1.New()
	if res.Panic != "" {
		fmt.Fprintf(h, "PANIC")
	} else if res.Err != nil {
		fmt.Fprintf(h, "ERR:%s", res.Err.Error())
		if res.PErr != nil {
			fmt.Fprintf(h, "@%d-%d:%d-%d", res.PErr.LineNumberStart, res.PErr.LineNumberEnd, res.PErr.CharStart, res.PErr.CharEnd)
		}
	} else {
		fmt.Fprintf(h, "OUT:%s", res.Out)
	}
	return fmt.Sprintf("%x", h.Sum(nil)[:8])
}

func keyOf(in sessInput) string {
	h := sha1.Sum([]byte(in.src + "\x00" + optsKey(in.o)))
	return fmt.Sprintf("%x", h[:8])
}

// sessionPools builds pools of inputs; each pool mixes unrelated inputs with
// near-duplicates that differ in exactly one thing.
func sessionPools(r *Rand, npools int) ([][]sessInput, int) {
	var pools [][]sessInput
	longText := "Please take good care of this rare POKeMON for me okay thanks a lot my friend"
	fmtSrc := func(params string) string {
		return "script A {\n    msgbox(format(\"" + longText + "\"" + params + "))\n}\nscript B {\n    msgbox(format(\"" + longText + "\"))\n}\n"
	}
	base := Opts{Optimize: true, FontConfig: repoFontConfig, AutoVar: genAutoVar()}
	pools = append(pools, []sessInput{
		{fmtSrc(", maxLineLength=120"), base},
		{fmtSrc(", maxLineLength=120, cursorOverlapWidth=30"), base},
		{fmtSrc(", maxLineLength=120, numLines=3"), base},
		{fmtSrc(`, "1_latin_frlg", 120`), base},
	})
	// more format() near-duplicates: same text and line length, one parameter varied
	texts := []string{longText, "Please take good care of this rare POKeMON for me okay",
		"aaaaa aaaaa aaaaa aaaaa aaaaa aaaa\\pbbb ccc ddd eee fff ggg hhh iii jjj kkk lll mmm"}
	for ti, tx := range texts {
		for _, ml := range []int{100, 120, 208} {
			mk := func(extra string) sessInput {
				return sessInput{fmt.Sprintf("script A%d {\n    msgbox(format(\"%s\", maxLineLength=%d%s))\n}\n", ti, tx, ml, extra), base}
			}
			pools = append(pools, []sessInput{mk(""), mk(", cursorOverlapWidth=30"), mk(", numLines=3"), mk(`, fontId="1_latin_frlg"`)})
			pools = append(pools, []sessInput{mk(", cursorOverlapWidth=10"), mk(", cursorOverlapWidth=60"), mk(", numLines=1"), mk(", numLines=1, cursorOverlapWidth=60")})
		}
	}
	noFont := base
	noFont.FontConfig = "/nonexistent/font.json"
	withLen := base
	withLen.MaxLine = 90
	withFont := base
	withFont.FontID = "1_latin_frlg"
	pools = append(pools, []sessInput{{fmtSrc(""), base}, {fmtSrc(""), withLen}, {fmtSrc(""), withFont}, {fmtSrc(""), noFont}})
	// constants, inline numbering and errors must not leak into the next compilation
	constDef := "const K_LEAK = 99\nscript S {\n    setvar(VAR_A, K_LEAK)\n    msgbox(\"Hello\")\n}\n"
	constUse := "script S {\n    setvar(VAR_A, K_LEAK)\n    msgbox(\"Hello\")\n    msgbox(\"Bye\")\n}\n"
	bad1 := "script S {\n    if (flag(A) {\n}\n"
	bad2 := "script S {\n    break\n}\n"
	pools = append(pools, []sessInput{{constDef, base}, {constUse, base}, {bad1, base}, {bad2, base}})
	// several clashing labels in different chunks: the error must be the same one every time
	clash := "script Shop {\n    lock\n    if (flag(FLAG_A)) {\n        Shop_3:\n        one\n    } else {\n        Shop_4:\n        two\n    }\n    if (flag(FLAG_B)) {\n        Shop_1:\n        three\n    }\n    Shop_2:\n    release\n}\n"
	clash2 := "script Shop {\n    while (flag(FLAG_A)) {\n        Shop_1:\n        if (flag(FLAG_B)) {\n            Shop_2:\n            Shop_5:\n        }\n    }\n    msgbox(\"x\")\n    Shop_Text_0:\n}\n"
	pools = append(pools, []sessInput{{clash, base}, {clash2, base}, {clash, unoptOf(base)}, {clash2, unoptOf(base)}})
	// the same font id with different glyph tables in two config files
	if dir, err := newScratch("c17fonts"); err == nil {
		scratchDirs = append(scratchDirs, dir)
		mk := func(name string, w int) string {
			ws := map[string]int{" ": w, "default": w}
			fc := parser.FontConfig{DefaultFontID: "F", Fonts: map[string]parser.Fonts{"F": {Widths: ws, MaxLineLength: 100, NumLines: 2}}}
			b, _ := jsonMarshal(fc)
			pth := filepath.Join(dir, name)
			os.WriteFile(pth, b, 0o644)
			return pth
		}
		a, b2 := base, base
		a.FontConfig, b2.FontConfig = mk("small.json", 5), mk("big.json", 10)
		ftxt := "script A {\n    msgbox(format(\"aaaa bbbb cccc dddd eeee ffff\"))\n}\n"
		ftxt2 := "text T {\n    format(\"aaaa bbbb cccc dddd\")\n}\n"
		pools = append(pools, []sessInput{{ftxt, a}, {ftxt, b2}, {ftxt2, b2}, {ftxt2, a}})
		// a config with several fonts and no default font: whatever the answer is (an error today),
		// it is the same every time
		nd := base
		{
			fs := map[string]parser.Fonts{}
			for i, id := range []string{"F", "G", "H", "I"} {
				fs[id] = parser.Fonts{Widths: map[string]int{" ": 3 + 4*i, "default": 3 + 4*i}, MaxLineLength: 60 + 40*i, NumLines: 2}
			}
			b, _ := jsonMarshal(parser.FontConfig{Fonts: fs})
			nd.FontConfig = filepath.Join(dir, "nodefault.json")
			os.WriteFile(nd.FontConfig, b, 0o644)
		}
		ndF := nd
		ndF.FontID = "G"
		pools = append(pools, []sessInput{{ftxt, nd}, {ftxt2, nd}, {ftxt, ndF}, {"script A {\n    msgbox(format(\"aaaa bbbb cccc dddd eeee ffff\", \"H\"))\n}\n", nd}})
	}
	sw1, sw2 := base, base
	sw1.Switches = map[string]string{"GAME": "RUBY"}
	sw2.Switches = map[string]string{"GAME": "EMERALD"}
	psSrc := "script S {\n    poryswitch(GAME) {\n        RUBY: msgbox(\"ruby\")\n        _: msgbox(\"other\")\n    }\n    msgbox(\"after\")\n}\n"
	lm := base
	lm.LineMarkers, lm.InputPath = true, "x.pory"
	unopt := base
	unopt.Optimize = false
	pools = append(pools, []sessInput{{psSrc, sw1}, {psSrc, sw2}, {psSrc, lm}, {psSrc, unopt}})
	// errors are results too: an unknown font id, with and without other differences
	badFont := "text T {\n    format(\"Hello there\", \"no_such_font\")\n}\n"
	badFont2 := "script S {\n    msgbox(format(\"Hello\", fontId=\"nope\"))\n}\n"
	bogus := base
	bogus.FontID = "bogus_default"
	pools = append(pools, []sessInput{{badFont, base}, {badFont2, base}, {fmtSrc(""), bogus}, {badFont, unoptOf(base)}})
	// several things wrong at once: the error reported is the same one every time
	dupTexts := "text A {\n    \"1\"\n}\ntext B {\n    \"2\"\n}\ntext C {\n    \"3\"\n}\ntext B {\n    \"4\"\n}\ntext A {\n    \"5\"\n}\ntext C {\n    \"6\"\n}\n"
	dupMoves := "movement A {\n    walk_up\n}\nmovement B {\n    walk_up\n}\nmovement B {\n    walk_down\n}\nmovement A {\n    walk_down\n}\n"
	dupConst := "const A = 1\nconst B = 2\nconst B = 3\nconst A = 4\nscript S {\n    switch (var(V)) {\n        case 1: x\n        case 1: y\n        default: z\n        default: w\n    }\n}\n"
	pools = append(pools, []sessInput{{dupTexts, base}, {dupMoves, base}, {dupConst, base}, {dupTexts, unoptOf(base)}})
	// line markers with different input paths in one process
	lmB, lmC := lm, lm
	lmB.InputPath, lmC.InputPath = "maps/other dir/b.pory", `C:\data\c.pory`
	pools = append(pools, []sessInput{{psSrc, lm}, {psSrc, lmB}, {constUse, lmC}, {constUse, lmB}})
	lmD := lm
	lmD.InputPath = `D:\other\d.pory`
	pools = append(pools, []sessInput{{psSrc, lmC}, {psSrc, lmD}, {constUse, lmD}, {constUse, lmC}})
	fc := FileCfg{MaxTops: 4, Inline: true, AutoInline: true, MapScripts: true, Raw: true, Formats: true,
		Ctl: GenCfg{MaxDepth: 3, MaxStmts: 3, MaxLeaves: 3, Auto: true, Switches: true, Gotos: true}}
	nHand := len(pools)
	for len(pools) < nHand+npools {
		var p []sessInput
		for k := 0; k < 2; k++ {
			f, av := GenFile(r, fc, "")
			src, _ := RenderFile(f, Style{R: r, Layout: r.Intn(3)})
			o := Opts{Optimize: true, AutoVar: av, FontConfig: repoFontConfig}
			o2 := o
			o2.Optimize = false
			p = append(p, sessInput{src, o}, sessInput{src, o2})
		}
		pools = append(pools, p)
	}
	return pools, nHand
}

func checkC17(c *Ctx) {
	r := NewRand(c.Seed*4447 + 17)
	maxLen, npools, nfiles := 3, 8, 250
	if !c.Quick() {
		maxLen, npools, nfiles = 4, 60, 5000
	}
	fam, ok := cachedGenModule(c, "GenSched", map[string]int{"Pool": 4, "MaxLen": maxLen}, "scheds.ndjson")
	if !ok {
		return
	}
	var scheds [][]int
	for _, ln := range fam["scheds.ndjson"] {
		var s []int
		if jsonUnmarshal([]byte(ln), &s) != nil {
			c.Fatal("bad GenSched line")
			return
		}
		scheds = append(scheds, s)
	}
	pools, nHand := sessionPools(r, npools)
	defer func() {
		for _, d := range scratchDirs {
			os.RemoveAll(d)
		}
	}()
	var evs []map[string]interface{}
	inputOf := map[string]sessInput{}
	ncomp := 0
	for pi, pool := range pools {
		for si, s := range scheds {
			// the first pools (hand-made near-duplicates) run every schedule, the random ones a slice
			if pi >= nHand && (si+pi)%7 != 0 {
				continue
			}
			sid := fmt.Sprintf("pool%d.s%d", pi, si)
			for _, ix := range s {
				in := pool[ix-1]
				res := Compile(in.src, in.o)
				ncomp++
				k := keyOf(in)
				inputOf[k] = in
				evs = append(evs, map[string]interface{}{"sched": sid, "key": k, "digest": digestOf(res)})
			}
		}
	}
	// the reference result of every distinct input: a FRESH process that has
	// compiled nothing before (this harness binary re-executed once per input)
	self, _ := os.Executable()
	var freshEvs []map[string]interface{}
	keys := make([]string, 0, len(inputOf))
	for k := range inputOf {
		keys = append(keys, k)
	}
	sort.Strings(keys)
	var fmu sync.Mutex
	sem := make(chan struct{}, 16)
	var fwg sync.WaitGroup
	for _, k := range keys {
		fwg.Add(1)
		sem <- struct{}{}
		go func(k string) {
			defer fwg.Done()
			defer func() { <-sem }()
			in := inputOf[k]
			b, _ := jsonMarshal(map[string]interface{}{"src": in.src, "opts": in.o})
			cmd := exec.Command(self, "__compile")
			cmd.Stdin = bytes.NewReader(b)
			out, err := cmd.Output()
			d := strings.TrimSpace(string(out))
			if err != nil || d == "" || d == "BADINPUT" {
				d = "FRESH-PROCESS-FAILED"
			}
			fmu.Lock()
			freshEvs = append(freshEvs, map[string]interface{}{"sched": "fresh-process", "key": k, "digest": d})
			fmu.Unlock()
		}(k)
	}
	fwg.Wait()
	for _, e := range freshEvs {
		if e["digest"] == "FRESH-PROCESS-FAILED" {
			c.Fatal("could not obtain a fresh-process reference result")
			return
		}
	}
	sort.Slice(freshEvs, func(a, b int) bool { return freshEvs[a]["key"].(string) < freshEvs[b]["key"].(string) })
	evs = append(freshEvs, evs...)
	// the same inputs, 16 at a time, concurrently
	var mu sync.Mutex
	var wg sync.WaitGroup
	for g := 0; g < 16; g++ {
		wg.Add(1)
		go func(g int) {
			defer wg.Done()
			rr := NewRand(c.Seed*100 + int64(g))
			for n := 0; n < 60; n++ {
				pool := pools[rr.Intn(len(pools))]
				in := pool[rr.Intn(len(pool))]
				res := Compile(in.src, in.o)
				mu.Lock()
				ncomp++
				evs = append(evs, map[string]interface{}{"sched": fmt.Sprintf("concurrent.g%d", g), "key": keyOf(in), "digest": digestOf(res)})
				mu.Unlock()
			}
		}(g)
	}
	wg.Wait()
	to := runTraceSpec(c, "Session", "Session.cfg", "session.ndjson", evs)
	reported := map[string]bool{}
	for sid, why := range to.Rejected {
		// find the key in the message
		var in sessInput
		for k, v := range inputOf {
			if strings.Contains(why, k) {
				in = v
			}
		}
		if reported[in.src] {
			continue
		}
		reported[in.src] = true
		o := in.o
		c.Violate(Violation{What: "the same input and options gave different results within one process (schedule " + sid + "): " + why, Source: in.src, Opts: &o})
	}
	c.Sample(map[string]interface{}{"schedule_example": scheds[len(scheds)/2], "pool_example_input": pools[0][1].src})

	// many different compilations in between (a cache with eviction, a counter that wraps): the
	// first results must come back unchanged afterwards
	{
		mbase := Opts{Optimize: true, FontConfig: repoFontConfig, AutoVar: genAutoVar()}
		msw := mbase
		msw.Switches = map[string]string{"GAME": "RUBY"}
		first := []sessInput{
			{"script A {\n    msgbox(format(\"Please take good care of this rare POKeMON for me okay thanks a lot my friend\"))\n}\n", mbase},
			{"const K = 3\nscript S {\n    setvar(VAR_X, K)\n    if (var(VAR_X) == K) {\n        hit\n    }\n}\n", mbase},
			{"script S {\n    poryswitch(GAME) {\n        RUBY: msgbox(\"ruby\")\n        _: msgbox(\"other\")\n    }\n    msgbox(\"after\")\n}\n", msw}}
		var before []string
		for _, in := range first {
			rs := Compile(in.src, in.o)
			before = append(before, rs.Out+errText(rs.Err))
		}
		for k := 0; k < 700; k++ {
			src := fmt.Sprintf("script Many%d {\n    msgbox(format(\"word%d and another word%d to fill the line up %d\"))\n    cmd%d(%d)\n}\ntext T%d {\n    \"t%d\"\n}\n", k, k, k, k, k, k, k, k)
			Compile(src, mbase)
		}
		for i, in := range first {
			rs := Compile(in.src, in.o)
			if rs.Out+errText(rs.Err) != before[i] {
				o := in.o
				c.Violate(Violation{What: "the same input and options gave a different result after 700 other compilations in the process", Source: in.src, Opts: &o})
			}
		}
	}
	// ---- independence of unrelated statements -------------------------------
	fc := FileCfg{MaxTops: 4, Inline: false, MapScripts: true, Raw: true,
		Ctl: GenCfg{MaxDepth: 3, MaxStmts: 3, MaxLeaves: 3, Auto: true, Switches: true, Gotos: true}}
	fcData := fc
	fcData.Inline, fcData.AutoInline, fcData.Formats = true, true, true
	var recs []map[string]interface{}
	srcOf := map[string]string{}
	compileTops := func(tops []Top, o Opts) (Result, string) {
		src, _ := RenderFile(&File{Tops: tops}, Style{R: r, Layout: 0})
		return Compile(src, o), src
	}
	bigSizes := []int{65, 70, 130, 200}
	for i := 0; i < nfiles; i++ {
		// (a) files without inline data: the output is the join of the statements compiled alone
		f, av := GenFile(r, fc, fmt.Sprint("_", i))
		if i < len(bigSizes) {
			// files with very many top-level statements
			for k := 0; len(f.Tops) < bigSizes[i]; k++ {
				more, _ := GenFile(r, fc, fmt.Sprintf("_%d_%d", i, k))
				f.Tops = append(f.Tops, more.Tops...)
			}
		}
		o := Opts{Optimize: i%2 == 0, AutoVar: av}
		whole, src := compileTops(f.Tops, o)
		if whole.Err == nil && whole.Panic == "" {
			var parts []string
			okAll := true
			for pass := 0; pass < 2; pass++ { // non-text statements first, then texts (the emitter's documented order)
				for k := range f.Tops {
					if (f.Tops[k].K == "text") != (pass == 1) {
						continue
					}
					one, _ := compileTops([]Top{f.Tops[k]}, o)
					if one.Err != nil || one.Panic != "" {
						okAll = false
					}
					parts = append(parts, one.Out)
				}
			}
			if okAll {
				id := fmt.Sprintf("join%d", i)
				srcOf[id] = src
				recs = append(recs, map[string]interface{}{"id": id, "out1": nonBlank(outLines(strings.Join(parts, "\n"))), "out2": nonBlank(outLines(whole.Out)), "err1": false, "err2": false})
			}
		}
		// (b) files with inline data: inserting an unrelated data-free statement only inserts its block
		g, av2 := GenFile(r, fcData, fmt.Sprint("_", i))
		o2 := Opts{Optimize: i%2 == 1, AutoVar: av2, FontConfig: repoFontConfig}
		extraF, _ := GenFile(r, FileCfg{MaxTops: 1, Kinds: []string{"script", "movement", "mart", "mapscripts", "raw"}, MapScripts: true, Ctl: fc.Ctl}, fmt.Sprint("_x", i))
		extra := extraF.Tops[0]
		if extra.K == "mapscripts" {
			extra.Name = "ExtraMap" + fmt.Sprint(i)
		}
		before, _ := compileTops(g.Tops, o2)
		alone, _ := compileTops([]Top{extra}, o2)
		pos := r.Intn(len(g.Tops) + 1)
		var tops []Top
		tops = append(tops, g.Tops[:pos]...)
		tops = append(tops, extra)
		tops = append(tops, g.Tops[pos:]...)
		after, srcAfter := compileTops(tops, o2)
		if before.Err == nil && alone.Err == nil && after.Err == nil && before.Panic == "" && after.Panic == "" {
			// expected: the blocks of the non-text statements before pos, the extra block, the rest
			nb := 0
			for k := 0; k < pos; k++ {
				if g.Tops[k].K != "text" {
					nb++
				}
			}
			exp := insertBlock(g, o2, r, before.Out, alone.Out, nb)
			if exp != nil {
				id := fmt.Sprintf("ins%d", i)
				srcOf[id] = srcAfter
				recs = append(recs, map[string]interface{}{"id": id, "out1": nonBlank(outLines(*exp)), "out2": nonBlank(outLines(after.Out)), "err1": false, "err2": false})
			}
		}
	}
	// (c) text statements and scripts using format() in every parameter form: each text block equals the
	// block of the statement compiled alone, whatever precedes it
	fmtForms := []string{``, `, "1_latin_frlg"`, `, 100`, `, 208, "1_latin_frlg"`, `, "1_latin_rse", 150`, `, fontId="1_latin_frlg"`, `, numLines=3`,
		`, 120, cursorOverlapWidth=20`, `, maxLineLength=90, fontId="1_latin_frlg"`, `, cursorOverlapWidth=40`, `, numLines=1`, `, 120`, `, 120, numLines=4`}
	fmtTexts := []string{"Please take good care of this rare POKeMON for me okay thanks a lot",
		"This is a rather long speech that needs a good many lines of the box to be shown in full and therefore scrolls more than once before the player can go on with the game at last", "aaaaa aaaaa aaaaa aaaaa aaaaa aaaa\\pbbb ccc ddd eee",
		"one two three four five six seven eight nine ten eleven twelve"}
	nfmt := 60
	if !c.Quick() {
		nfmt = 1500
	}
	for i := 0; i < nfmt; i++ {
		n := 2 + r.Intn(3)
		var stmts []string
		for k := 0; k < n; k++ {
			stmts = append(stmts, fmt.Sprintf("text Fmt%d_%d {\n    format(\"%s\"%s)\n}\n", i, k, r.Pick(fmtTexts), r.Pick(fmtForms)))
		}
		o := Opts{Optimize: true, FontConfig: repoFontConfig}
		whole := Compile(strings.Join(stmts, ""), o)
		var parts []string
		okAll := whole.Err == nil && whole.Panic == ""
		for _, st := range stmts {
			one := Compile(st, o)
			if one.Err != nil || one.Panic != "" {
				okAll = false
			}
			parts = append(parts, one.Out)
		}
		if okAll {
			id := fmt.Sprintf("fmt%d", i)
			srcOf[id] = strings.Join(stmts, "")
			recs = append(recs, map[string]interface{}{"id": id, "out1": nonBlank(outLines(strings.Join(parts, "\n"))), "out2": nonBlank(outLines(whole.Out)), "err1": false, "err2": false})
		}
	}
	// (d) two fonts that give the same control code different widths: a word measured for one text
	// must not be reused for a text in the other font
	if dir, err := newScratch("c17cc"); err == nil {
		scratchDirs = append(scratchDirs, dir)
		mkf := func(k int) parser.Fonts {
			w := map[string]int{" ": 10, "default": 10, "{K}": k, "{PLAYER}": k / 2}
			return parser.Fonts{Widths: w, MaxLineLength: 100, NumLines: 2}
		}
		b, _ := jsonMarshal(parser.FontConfig{DefaultFontID: "A", Fonts: map[string]parser.Fonts{"A": mkf(40), "B": mkf(0)}})
		fcp := filepath.Join(dir, "twofonts.json")
		os.WriteFile(fcp, b, 0o644)
		o := Opts{Optimize: true, FontConfig: fcp}
		texts := []string{"aaaa {K}bbbb cc", "{PLAYER}aaaa {K}b cc dd", "aa {K}{K} bbbb"}
		n := 0
		for _, t1 := range texts {
			for _, t2 := range texts {
				for _, fonts := range [][2]string{{"A", "B"}, {"B", "A"}, {"A", "A"}} {
					st := []string{fmt.Sprintf("text Cc%d_a {\n    format(\"%s\", \"%s\")\n}\n", n, t1, fonts[0]),
						fmt.Sprintf("script Cc%d_s {\n    msgbox(format(\"%s\", \"%s\"))\n}\n", n, t2, fonts[1])}
					whole := Compile(st[0]+st[1], o)
					one0, one1 := Compile(st[0], o), Compile(st[1], o)
					if whole.Err == nil && one0.Err == nil && one1.Err == nil {
						id := fmt.Sprintf("cc%d", n)
						srcOf[id] = st[0] + st[1]
						// the script's block comes first, then the texts: hoisted text, then the text statement
						recs = append(recs, map[string]interface{}{"id": id, "out1": nonBlank(outLines(one1.Out + "\n" + one0.Out)), "out2": nonBlank(outLines(whole.Out)), "err1": false, "err2": false})
					}
					n++
				}
			}
		}
	}
	// history outside the process: the real binary writing to an output file that an earlier run
	// (of another, longer or shorter input) has left behind must produce what it writes to a fresh file
	if dir, derr := newScratch("c17cli"); derr == nil {
		defer os.RemoveAll(dir)
		short := "script Short {\n    lock\n    msgbox(\"Hi\")\n}\n"
		long := "script Long {\n" + strings.Repeat("    msgbox(\"A rather long line of text number one\")\n    setvar(VAR_0x8004, 5)\n", 40) + "}\n" + short
		ccPath, _ := writeAutoVarConfig(dir, nil)
		for i, pair := range [][2]string{{long, short}, {short, long}, {long, long}, {short, "raw `x`\n"}} {
			for _, lm := range []string{"-lm=false", "-lm=true"} {
				used, fresh := filepath.Join(dir, fmt.Sprintf("used%d%s.inc", i, lm[4:])), filepath.Join(dir, fmt.Sprintf("fresh%d%s.inc", i, lm[4:]))
				_, _, e1, t1 := RunBinary(c.Bin, pair[0], []string{"-cc", ccPath, lm, "-o", used}, 15*time.Second)
				_, _, e2, t2 := RunBinary(c.Bin, pair[1], []string{"-cc", ccPath, lm, "-o", used}, 15*time.Second)
				_, _, e3, t3 := RunBinary(c.Bin, pair[1], []string{"-cc", ccPath, lm, "-o", fresh}, 15*time.Second)
				if e1 != 0 || e2 != 0 || e3 != 0 || t1 || t2 || t3 {
					c.Violate(Violation{What: "the poryscript binary failed on a well-formed file written to -o", Source: pair[1]})
					continue
				}
				bu, _ := os.ReadFile(used)
				bf, _ := os.ReadFile(fresh)
				id := fmt.Sprintf("rebuild%d%s", i, lm[4:])
				srcOf[id] = "first run:\n" + pair[0] + "second run, same -o file:\n" + pair[1]
				recs = append(recs, map[string]interface{}{"id": id, "out1": outLines(string(bu)), "out2": outLines(string(bf)), "err1": false, "err2": false})
			}
		}
	}
	bad, states, ok := runPairCases(c, "SameOut", "same.ndjson", recs)
	if !ok {
		return
	}
	for id := range bad {
		what := "the code emitted for a statement depends on an unrelated statement of the file (" + id + ")"
		if strings.HasPrefix(id, "rebuild") {
			what = "the same input and options written to an -o file that an earlier run left behind differ from the output written to a fresh file (" + id + ")"
		}
		c.Violate(Violation{What: what, Source: srcOf[id]})
	}
	c.Cov("evaluations", int64(ncomp+len(recs)))
	c.Cov("distinct_nontrivial", int64(len(inputOf)+len(recs)))
	c.CovSet("rule", "determinism: every schedule of <= MaxLen compilations over pools of 4 inputs (TLC-enumerated, GenSched.tla) run in one process, pools of hand-made near-duplicates (format() parameters, font options, constants, errors, switches, markers) and of seeded files, plus 16-way concurrent compilations; a distinct case is a distinct (input, options) key. independence: seeded files compared with the join of their statements compiled alone, and with the same file after inserting an unrelated statement; history outside the process: the binary writing over an -o file left by an earlier run of a longer / shorter / equal input")
	c.Cov("compilations_in_history", int64(ncomp))
	c.Cov("independence_pairs", int64(len(recs)))
	c.Cov("states", to.States+states)
}

// insertBlock computes what the output must be after inserting a statement
// whose own output is `block` as the nb-th non-text statement: the blocks of
// the original output are found by compiling prefixes of the file.
func insertBlock(g *File, o Opts, r *Rand, before, block string, nb int) *string {
	// non-text statements in order
	var nt []Top
	var texts []Top
	for _, t := range g.Tops {
		if t.K == "text" {
			texts = append(texts, t)
		} else {
			nt = append(nt, t)
		}
	}
	// The output is: blocks of nt joined by "\n", then texts/inline data.  The
	// length of the first nb blocks is the length of the output of a file made of
	// those nb statements followed by everything else - which we cannot get
	// without hoisted data interfering; instead split `before` at the position of
	// the label line that starts statement nb.
	if nb >= len(nt) {
		// insert after the last non-text statement: before the data section
		cut := dataSectionStart(before, nt, texts)
		if cut < 0 {
			return nil
		}
		head, tail := before[:cut], before[cut:]
		var s string
		switch {
		case head == "":
			s = block + "\n" + tail
			if tail == "" {
				s = block
			}
		case tail == "":
			s = head + "\n" + block
		default:
			s = head + block + "\n" + tail
		}
		return &s
	}
	cut := stmtStart(before, nt[nb])
	if cut < 0 {
		return nil
	}
	s := before[:cut] + block + "\n" + before[cut:]
	return &s
}

// stmtStart finds the byte offset where the block of a top-level statement starts.
func stmtStart(out string, t Top) int {
	switch t.K {
	case "raw":
		first := strings.Split(t.Raw, "\n")[0]
		if strings.TrimSpace(first) == "" {
			return -1 // an empty first line cannot be located in the output: skip this case
		}
		if strings.Count("\n"+out, "\n"+first+"\n") != 1 {
			return -1 // the same raw text occurs more than once: its position is ambiguous, skip this case
		}
		return lineStart(out, first)
	case "mart":
		i := labelStart(out, t.Name)
		if i < 0 {
			return -1
		}
		// the block starts with ".align 2" on the line before
		j := strings.LastIndex(out[:i], "\t.align 2\n")
		if j < 0 || j+len("\t.align 2\n") != i {
			return -1
		}
		return j
	default:
		return labelStart(out, t.Name)
	}
}

func labelStart(out, name string) int {
	for _, suf := range []string{"::\n", ":\n"} {
		if strings.HasPrefix(out, name+suf) {
			return 0
		}
		if i := strings.Index(out, "\n"+name+suf); i >= 0 {
			return i + 1
		}
	}
	return -1
}

func lineStart(out, line string) int {
	if strings.HasPrefix(out, line+"\n") || out == line {
		return 0
	}
	if i := strings.Index(out, "\n"+line+"\n"); i >= 0 {
		return i + 1
	}
	return -1
}

// dataSectionStart finds where the trailing data (hoisted movements, texts)
// begins: the first hoisted movement label, else the first text label.
func dataSectionStart(out string, nt, texts []Top) int {
	best := -1
	lines := strings.Split(out, "\n")
	off := 0
	for _, ln := range lines {
		if m := reLabel.FindStringSubmatch(ln); m != nil && !strings.HasPrefix(ln, "\t") {
			if reHoisted.MatchString(m[1]) {
				best = off
				break
			}
			for _, t := range texts {
				if t.Name == m[1] {
					best = off
				}
			}
			if best >= 0 {
				break
			}
		}
		off += len(ln) + 1
	}
	if best < 0 {
		return len(out)
	}
	return best
}

// nonBlank drops empty lines: how many blank lines separate the blocks of two statements is
// layout, not part of the independence property.
// nonBlank drops blank lines and puts the blocks of the output into a canonical order: the
// property is about the code emitted for a statement, not about where in the file it lands.  A
// block starts at a label written at column 0 (an '.align' line directly before it belongs to it);
// whatever precedes the first label stays in front.  Blocks are ordered by their label.
var reTopLabel = regexp.MustCompile(`^[^\s#@.][^\s]*:{1,2}\s*$`)

func nonBlank(ls []string) []string {
	var kept []string
	for _, l := range ls {
		if strings.TrimSpace(l) != "" {
			kept = append(kept, strings.TrimRight(l, "\r"))
		}
	}
	type block struct {
		label string
		lines []string
	}
	var head []string
	var blocks []*block
	for i := 0; i < len(kept); i++ {
		l := kept[i]
		isLab := reTopLabel.MatchString(l)
		if isLab && len(blocks) > 0 {
			// a generated sub-label of the script whose block this is stays inside the block
			// (chunk order and fall-through are part of the script's code)
			name := strings.TrimRight(strings.TrimSpace(l), ":")
			base := strings.TrimRight(strings.TrimSpace(blocks[len(blocks)-1].label), ":")
			if m := reGenSuffix.FindStringSubmatch(name); m != nil && m[1] == base {
				isLab = false
			}
		}
		startsBlock := isLab ||
			(strings.HasPrefix(strings.TrimSpace(l), ".align") && i+1 < len(kept) && reTopLabel.MatchString(kept[i+1]))
		if startsBlock {
			lab := l
			if !reTopLabel.MatchString(l) {
				lab = kept[i+1]
			}
			blocks = append(blocks, &block{label: lab, lines: []string{l}})
			if lab != l {
				i++
				blocks[len(blocks)-1].lines = append(blocks[len(blocks)-1].lines, kept[i])
			}
			continue
		}
		if len(blocks) == 0 {
			head = append(head, l)
		} else {
			blocks[len(blocks)-1].lines = append(blocks[len(blocks)-1].lines, l)
		}
	}
	sort.SliceStable(blocks, func(a, b int) bool { return blocks[a].label < blocks[b].label })
	out := append([]string{}, head...)
	for _, b := range blocks {
		out = append(out, b.lines...)
	}
	return out
}
