package main

// ./check topmodel : spec/TopModel.tla (the top-level grammar: keywords, scope modifiers, names,
// bodies, const values, duplicate text / movement names, and the labels written with their scope
// marker) against the real compiler on EVERY token string of length <= 4 (5) over the top-level
// alphabet and on every sequence of <= 3 statement templates.  Implementation-level, not a
// property check.

import (
	"fmt"
	"regexp"
	"strings"
	"time"
)

func init() {
	register("topmodel", "other", checkTopModel)
}

// the last three symbols are left out of the longest strings of the thorough tier
var topAlphabet = []string{"script", "text", "movement", "raw", "const", "(", "global", ")", "a", "{", "}", "r", "=", "mart", "local", "b"}

var topTemplates = []string{
	"script a { }", "script b { }", "script ( global ) a { }", "script ( local ) a { }", "script ( local ) b { a ( b ) }",
	"text a { s }", "text b { s }", "text ( local ) a { s }", "text ( global ) b { s }",
	"movement a { }", "movement b { a }", "movement ( global ) a { b a }", "movement ( local ) b { }",
	"mart a { }", "mart ( global ) b { a }", "mart ( local ) a { b }",
	"raw r", "const a = b", "const b = a {", "const a = ( global )",
	"script ( a ) a { }", "text a { }", "movement ( global a { }", "const a", "script { }", "mart a { r }", "text ( local ) { s }",
}

var reTopModelLabel = regexp.MustCompile(`^[A-Za-z_][A-Za-z0-9_]*::?$`)

func topSource(toks []string) string {
	out := make([]string, len(toks))
	for i, t := range toks {
		switch t {
		case "s":
			out[i] = "\"s\""
		case "r":
			out[i] = "`r`"
		default:
			out[i] = t
		}
	}
	return strings.Join(out, " ") + "\n"
}

func checkTopModel(c *Ctx) {
	maxLen, nsym := 4, len(topAlphabet)
	if !c.Quick() {
		maxLen, nsym = 5, len(topAlphabet)-3
	}
	var families [][]string
	fam, ok := cachedGenModule(c, "GenChars", map[string]int{"MaxLen": maxLen, "NSym": nsym}, "chars.ndjson")
	if !ok {
		return
	}
	for _, ln := range fam["chars.ndjson"] {
		var w []int
		if jsonUnmarshal([]byte(ln), &w) != nil {
			c.Fatal("bad GenChars line")
			return
		}
		toks := make([]string, len(w))
		for k, x := range w {
			toks[k] = topAlphabet[x-1]
		}
		families = append(families, toks)
	}
	if !c.Quick() {
		// the full alphabet up to length 4 as well
		fam4, ok := cachedGenModule(c, "GenChars", map[string]int{"MaxLen": 4, "NSym": len(topAlphabet)}, "chars.ndjson")
		if !ok {
			return
		}
		for _, ln := range fam4["chars.ndjson"] {
			var w []int
			if jsonUnmarshal([]byte(ln), &w) != nil {
				c.Fatal("bad GenChars line")
				return
			}
			long := false
			for _, x := range w {
				if x > nsym {
					long = true
				}
			}
			if !long {
				continue // already there
			}
			toks := make([]string, len(w))
			for k, x := range w {
				toks[k] = topAlphabet[x-1]
			}
			families = append(families, toks)
		}
	}
	nAll := len(families)
	nt := len(topTemplates)
	for i := 0; i < nt; i++ {
		families = append(families, strings.Fields(topTemplates[i]))
		for j := 0; j < nt; j++ {
			families = append(families, strings.Fields(topTemplates[i]+" "+topTemplates[j]))
			for k := 0; k < nt; k++ {
				families = append(families, strings.Fields(topTemplates[i]+" "+topTemplates[j]+" "+topTemplates[k]))
			}
		}
	}
	var nd NDJSON
	srcOf := map[string]string{}
	n, inBatch, drift, accepted := 0, 0, 0, 0
	var states int64
	failed := false
	flush := func() {
		if inBatch == 0 || failed {
			return
		}
		res, err := RunTLC("topall", TLCJob{Module: "TopAll", Cfg: "TopAll.cfg", Data: map[string][]byte{"topall.ndjson": nd.Bytes()},
			Workers: c.Workers, Timeout: 30 * time.Minute, HeapGB: 10})
		if err != nil || !res.Clean() {
			c.Fatal("TopAll run failed: %v\n%s", err, tail(res.Output, 3000))
			failed = true
			return
		}
		for _, m := range reCaseFlag.FindAllStringSubmatch(res.Output, -1) {
			drift++
			if drift <= 8 {
				fmt.Printf("DRIFT top-level model: %s %q  model: %s\n", m[3], srcOf[m[3]], strings.Join(strings.Fields(m[4]), " "))
			}
		}
		states += res.Distinct
		nd = NDJSON{}
		inBatch = 0
	}
	for i, toks := range families {
		res := Compile(topSource(toks), Opts{Optimize: i%2 == 0})
		labels := []string{}
		isErr := res.Err != nil || res.Panic != ""
		if !isErr {
			accepted++
			for _, l := range strings.Split(res.Out, "\n") {
				if reTopModelLabel.MatchString(l) {
					labels = append(labels, l)
				}
			}
		}
		id := fmt.Sprintf("t%d", i)
		srcOf[id] = strings.Join(toks, " ")
		nd.Add(map[string]interface{}{"id": id, "toks": toks, "err": isErr, "labels": labels})
		n++
		inBatch++
		if inBatch >= 100000 {
			flush()
		}
	}
	flush()
	if failed {
		return
	}
	alph := fmt.Sprintf("%d", nsym)
	if !c.Quick() {
		alph = fmt.Sprintf("%d, and of length <= 4 over %d", nsym, len(topAlphabet))
	}
	msg := fmt.Sprintf("topmodel: %d token strings (all %d of length <= %d over %s tokens; all %d sequences of <= 3 of %d statement templates), %d accepted; accept/reject or labels with scope differ between model and real compiler: %d",
		n, nAll, maxLen, alph, n-nAll, nt, accepted, drift)
	fmt.Println(msg)
	c.CovSet("explanation", msg)
	c.Cov("evaluations", int64(n))
	c.Cov("distinct_nontrivial", int64(accepted))
	c.Cov("states", states)
	if drift > 0 {
		c.Fatal("top-level model drift: %d strings", drift)
	}
}
