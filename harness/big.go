package main

// Programs that are LARGE in one dimension (two-digit chunk / case / operand / text numbers):
// exhaustive small families and random medium programs do not reach thresholds such as "10 sorts
// before 9", a fixed-size buffer or a fast path for small n.

import "fmt"

func bigFlag(i int) *Expr {
	return &Expr{K: "leaf", Typ: "flag", Opnd: fmt.Sprintf("FLAG_%d", i), Form: "bare"}
}
func bigCmd(s string, i int) Stmt { return Stmt{K: "cmd", Toks: []string{fmt.Sprintf("%s%d", s, i)}} }

// bigPrograms returns scripts-only programs.
func bigPrograms() []*Prog {
	var out []*Prog
	add := func(name string, body []Stmt) {
		out = append(out, &Prog{Scripts: []Script{{Name: name, Body: body}, {Name: name + "Next", Body: []Stmt{{K: "cmd", Toks: []string{"nextscript"}}}}}})
	}
	// 1. many sequential ifs (chunk numbers well beyond 9), with and without else
	for _, n := range []int{12, 33, 70, 180} {
		var body []Stmt
		for i := 0; i < n; i++ {
			s := Stmt{K: "if", Arms: []Arm{{Cond: bigFlag(i), Body: []Stmt{bigCmd("t", i)}}}}
			if i%3 == 0 {
				s.HasElse, s.Els = true, []Stmt{bigCmd("e", i)}
			}
			body = append(body, s, bigCmd("between", i))
		}
		add(fmt.Sprintf("BigSeq%d", n), body)
	}
	// 2. a long elif chain
	for _, n := range []int{11, 17, 70, 140} {
		s := Stmt{K: "if", HasElse: true, Els: []Stmt{bigCmd("else", 0)}}
		for i := 0; i < n; i++ {
			s.Arms = append(s.Arms, Arm{Cond: bigFlag(i), Body: []Stmt{bigCmd("arm", i)}})
		}
		add(fmt.Sprintf("BigElif%d", n), []Stmt{s, bigCmd("after", 0)})
	}
	// 3. switches with many cases: own bodies, shared bodies, default in the middle / absent
	for v, n := range []int{11, 16, 24, 70, 135} {
		s := Stmt{K: "switch", V: "VAR_BIG"}
		for i := 0; i < n; i++ {
			c := Case{Val: fmt.Sprint(i + 1), Body: []Stmt{bigCmd("case", i)}}
			if i%4 == 1 {
				c.Body = []Stmt{} // shares the next body
			}
			if i%5 == 2 {
				c.Body = append(c.Body, Stmt{K: "break"})
			}
			s.Cases = append(s.Cases, c)
			if v > 0 && i == n/2 {
				s.Cases = append(s.Cases, Case{IsDef: true, Body: []Stmt{bigCmd("dflt", 0)}})
			}
		}
		add(fmt.Sprintf("BigSwitch%d", n), []Stmt{bigCmd("before", 0), s, bigCmd("after", 0)})
	}
	// 4. deep nesting of loops and ifs with break / continue at the bottom
	for _, depth := range []int{7, 12, 45} {
		inner := []Stmt{bigCmd("bottom", 0), {K: "if", Arms: []Arm{{Cond: bigFlag(99), Body: []Stmt{{K: "break"}}}}}, bigCmd("bottom", 1)}
		for d := depth; d >= 1; d-- {
			switch d % 3 {
			case 0:
				inner = []Stmt{bigCmd("pre", d), {K: "while", HasCond: true, Cond: bigFlag(d), Body: inner}, bigCmd("post", d)}
			case 1:
				inner = []Stmt{{K: "if", Arms: []Arm{{Cond: bigFlag(d), Body: inner}}, HasElse: true, Els: []Stmt{bigCmd("els", d)}}}
			default:
				inner = []Stmt{{K: "dowhile", Cond: bigFlag(d), Body: inner}, bigCmd("post", d)}
			}
		}
		add(fmt.Sprintf("BigDeep%d", depth), inner)
	}
	// 5. conditions with many operands
	for _, n := range []int{9, 12} { // (mixed operators: the number of evaluation paths grows exponentially; long chains are flat, below)
		var e *Expr
		for i := 0; i < n; i++ {
			l := bigFlag(i)
			if i%4 == 3 {
				l.Form = "not"
			}
			switch {
			case e == nil:
				e = l
			case i%3 == 0:
				e = &Expr{K: "or", L: e, R: l}
			default:
				e = &Expr{K: "and", L: e, R: l}
			}
		}
		add(fmt.Sprintf("BigCond%d", n), []Stmt{{K: "if", Arms: []Arm{{Cond: e, Body: []Stmt{bigCmd("yes", 0)}}}, HasElse: true, Els: []Stmt{bigCmd("no", 0)}}, bigCmd("after", 0)})
		add(fmt.Sprintf("BigWhile%d", n), []Stmt{{K: "while", HasCond: true, Cond: e, Body: []Stmt{bigCmd("body", 0)}}, bigCmd("after", 0)})
	}
	// 5b. flat chains of one operator
	for _, n := range []int{8, 12, 20, 66} {
		for _, op := range []string{"and", "or"} {
			var e *Expr
			for i := 0; i < n; i++ {
				if e == nil {
					e = bigFlag(i)
				} else {
					e = &Expr{K: op, L: e, R: bigFlag(i)}
				}
			}
			add(fmt.Sprintf("BigFlat%s%d", op, n), []Stmt{{K: "if", Arms: []Arm{{Cond: e, Body: []Stmt{bigCmd("yes", 0)}}}, HasElse: true, Els: []Stmt{bigCmd("no", 0)}}, bigCmd("after", 0)})
		}
	}
	// 6. a long straight-line script with many labels and gotos
	{
		var body []Stmt
		for i := 0; i < 300; i++ {
			body = append(body, bigCmd("line", i))
			if i%7 == 3 {
				body = append(body, Stmt{K: "label", Name: fmt.Sprintf("BigLab%d", i)})
			}
			if i%11 == 5 {
				body = append(body, Stmt{K: "if", Arms: []Arm{{Cond: bigFlag(i), Body: []Stmt{{K: "cmd", Toks: []string{"goto", fmt.Sprintf("BigLab%d", 3+7*((i/7)%5))}}}}}})
			}
		}
		add("BigLine", body)
	}
	return out
}
