package main

// The command line: the real binary must answer like the library it wraps.
// Used by several checks for the glue in main.go (reading the input, -i / stdin,
// -o / stdout, -s, -cc, -fc, -f, -l, -lm, -optimize).

import (
	"fmt"
	"os"
	"path/filepath"
	"strings"
	"time"
)

// CLICase is one invocation of the binary.
type CLICase struct {
	ID     string
	Src    string
	Opts   Opts
	Stdin  bool // feed the source on stdin instead of -i <file>
	ToFile bool // -o <file> instead of stdout
}

// cliRecords runs every case through the binary and through the library and returns
// SameOut records (out1 = binary, out2 = library).
func cliRecords(c *Ctx, cases []CLICase) ([]map[string]interface{}, map[string]string) {
	dir, err := newScratch("cli")
	if err != nil {
		c.Fatal("scratch dir: %v", err)
		return nil, nil
	}
	defer os.RemoveAll(dir)
	var recs []map[string]interface{}
	desc := map[string]string{}
	for i, cs := range cases {
		o := cs.Opts
		args := []string{fmt.Sprintf("-optimize=%v", o.Optimize), fmt.Sprintf("-lm=%v", o.LineMarkers)}
		ccPath, _ := writeAutoVarConfig(dir, o.AutoVar)
		args = append(args, "-cc", ccPath)
		if o.FontConfig != "" {
			args = append(args, "-fc", o.FontConfig)
		}
		if o.FontID != "" {
			args = append(args, "-f", o.FontID)
		}
		if o.MaxLine != 0 {
			args = append(args, "-l", fmt.Sprint(o.MaxLine))
		}
		for k, v := range o.Switches {
			args = append(args, "-s", k+"="+v)
		}
		lib := o
		if cs.Stdin {
			lib.InputPath = ""
		} else {
			in := filepath.Join(dir, fmt.Sprintf("in%d.pory", i))
			os.WriteFile(in, []byte(cs.Src), 0o644)
			args = append(args, "-i", in)
			lib.InputPath = in
		}
		outFile := ""
		if cs.ToFile {
			outFile = filepath.Join(dir, fmt.Sprintf("out%d.inc", i))
			args = append(args, "-o", outFile)
			if i%2 == 0 {
				// a rebuild: the output file exists already and is longer than what will be written
				os.WriteFile(outFile, []byte(strings.Repeat("Stale::\n\tstale_command\n\treturn\n\n", 4000)), 0o644)
			}
		}
		so, se, exit, to := RunBinary(c.Bin, cs.Src, args, 15*time.Second)
		got := so
		if cs.ToFile && exit == 0 {
			b, _ := os.ReadFile(outFile)
			got = string(b)
		}
		want := Compile(cs.Src, lib)
		gotErr := exit != 0 || to
		wantErr := want.Err != nil || want.Panic != ""
		gl, wl := strings.Split(got, "\n"), strings.Split(want.Out, "\n")
		if gotErr {
			// the message printed by the binary, without its prefix
			msg := strings.TrimSpace(se)
			if k := strings.Index(msg, "PORYSCRIPT ERROR: "); k >= 0 {
				msg = strings.TrimSpace(msg[k+len("PORYSCRIPT ERROR: "):])
			}
			gl = []string{msg}
		}
		if wantErr {
			wl = []string{strings.TrimSpace(fmt.Sprint(want.Err))}
		}
		recs = append(recs, map[string]interface{}{"id": cs.ID, "out1": gl, "out2": wl, "err1": gotErr, "err2": wantErr})
		desc[cs.ID] = fmt.Sprintf("poryscript %s (stdin=%v)\n--- source:\n%s--- binary (exit %d):\n%s%s\n--- library:\n%s%v", strings.Join(args, " "), cs.Stdin, cs.Src, exit, got, se, want.Out, want.Err)
	}
	return recs, desc
}

// cliCheck compares and turns differences into violations of the running check.
func cliCheck(c *Ctx, cases []CLICase, what string) int64 {
	recs, desc := cliRecords(c, cases)
	if len(recs) == 0 {
		return 0
	}
	bad, states, ok := runPairCases(c, "SameOut", "same.ndjson", recs)
	if !ok {
		return 0
	}
	n := 0
	for id := range bad {
		n++
		if n > 10 {
			break
		}
		c.Violate(Violation{What: what + ": the poryscript binary does not answer like the library (" + id + ")", Detail: map[string]interface{}{"case": desc[id]}})
	}
	c.Cov("cli_invocations_compared", int64(len(recs)))
	return states
}
