package main

// Static predicates (spec/AsmStatic.tla) and VM-only exploration
// (spec/VMOnly.tla) over real outputs.

import (
	"regexp"
	"time"
)

// StaticCase is one output with what the source obliges.
type StaticCase struct {
	ID        string
	Src       string
	Opts      Opts
	Out       string
	Scripts   []string          // names of scripts (incl. inline map scripts)
	ULabels   []string          // user labels written in scripts
	MustDef   []string          // names that must be defined
	Scopes    map[string]string // name -> g / l
	RawLabels []string          // labels written inside raw statements
}

func toSet(a []string) map[string]bool {
	m := map[string]bool{}
	for _, x := range a {
		m[x] = true
	}
	return m
}

func buildStaticRecord(sc *StaticCase) map[string]interface{} {
	pa := ParseAsm(sc.Out)
	lab := AnnotateRolesRaw(pa, toSet(sc.Scripts), toSet(sc.ULabels), toSet(sc.RawLabels))
	scopes := map[string]interface{}{"@": "l"}
	for k, v := range sc.Scopes {
		scopes[k] = v
	}
	asm := make([]AsmLine, len(pa.Lines))
	copy(asm, pa.Lines)
	return map[string]interface{}{"id": sc.ID, "asm": asm, "lab": lab,
		"ulabels": strs(sc.ULabels), "mustdef": strs(sc.MustDef), "scopes": scopes}
}

var reStatic = regexp.MustCompile(`(?s)<<\s*"STATIC",\s*(\d+),\s*"([^"]+)",\s*\{([^}]*)\}`)
var reName = regexp.MustCompile(`"([A-Za-z]+)"`)

// StaticResult maps case id -> failing predicate names / bad endings.
type StaticResult struct {
	Failing   map[string][]string
	BadEnd    map[string]bool
	States    int64
	Generated int64
	Cases     int
}

// RunStatic evaluates AsmStatic (and, if explore, VMOnly) on all cases.
func RunStatic(c *Ctx, cases []*StaticCase, explore bool) *StaticResult {
	sr := &StaticResult{Failing: map[string][]string{}, BadEnd: map[string]bool{}}
	const batch = 4000
	for i := 0; i < len(cases); i += batch {
		j := i + batch
		if j > len(cases) {
			j = len(cases)
		}
		var nd NDJSON
		for _, sc := range cases[i:j] {
			if err := nd.Add(buildStaticRecord(sc)); err != nil {
				c.Fatal("encoding static case: %v", err)
				return sr
			}
		}
		data := map[string][]byte{"static.ndjson": nd.Bytes()}
		res, err := RunTLC(c.ID+".static", TLCJob{Module: "AsmStatic", Cfg: "AsmStatic.cfg", Data: data, Workers: c.Workers, Timeout: 10 * time.Minute})
		if err != nil || !res.Clean() {
			c.Fatal("AsmStatic run failed: %v\n%s", err, tail(res.Output, 3000))
			return sr
		}
		sr.States += res.Distinct
		sr.Generated += res.Generated
		for _, m := range reStatic.FindAllStringSubmatch(res.Output, -1) {
			var names []string
			for _, n := range reName.FindAllStringSubmatch(m[3], -1) {
				names = append(names, n[1])
			}
			sr.Failing[m[2]] = names
		}
		if explore {
			res, err := RunTLC(c.ID+".vmonly", TLCJob{Module: "VMOnly", Cfg: "VMOnly.cfg", Data: data, Workers: c.Workers, Timeout: 20 * time.Minute, HeapGB: 12})
			if err != nil || !res.Clean() {
				c.Fatal("VMOnly run failed: %v\n%s", err, tail(res.Output, 3000))
				return sr
			}
			sr.States += res.Distinct
			sr.Generated += res.Generated
			for _, m := range reDiverged.FindAllStringSubmatch(res.Output, -1) {
				sr.BadEnd[m[3]] = true
			}
		}
		sr.Cases += j - i
	}
	return sr
}

// progStaticCase derives the obligations of a scripts-only program.
func progStaticCase(id string, p *Prog, src string, o Opts, out string) *StaticCase {
	sc := &StaticCase{ID: id, Src: src, Opts: o, Out: out, Scopes: map[string]string{}}
	for i := range p.Scripts {
		s := &p.Scripts[i]
		sc.Scripts = append(sc.Scripts, s.Name)
		sc.MustDef = append(sc.MustDef, s.Name)
		if s.Scope == "local" {
			sc.Scopes[s.Name] = "l"
		} else {
			sc.Scopes[s.Name] = "g"
		}
		walkStmts(s.Body, func(st *Stmt) {
			if st.K == "label" {
				sc.ULabels = append(sc.ULabels, st.Name)
				if st.G {
					sc.Scopes[st.Name] = "g"
				} else {
					sc.Scopes[st.Name] = "l"
				}
			}
		})
	}
	return sc
}
