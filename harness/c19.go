package main

import (
	"fmt"
	"strings"
	"unicode/utf8"

	"github.com/huderlem/poryscript/lexer"
	"github.com/huderlem/poryscript/token"
)

func init() {
	register("C19", "model_checking", checkC19)
}

// lexTok is one expected token of a lexeme.
type lexTok struct {
	Text string // source text of the token
	Type string
	Lit  string
}

// lexeme is a unit the layout may not split.
type lexeme struct {
	Toks []lexTok
}

func lx(text, typ, lit string) lexeme { return lexeme{[]lexTok{{text, typ, lit}}} }

var lexReps = []lexeme{
	lx("abc", "IDENT", "abc"), lx("né_1", "IDENT", "né_1"), lx("Éa", "IDENT", "Éa"), lx("日本", "IDENT", "日本"), lx("script", "SCRIPT", "script"), lx("TRUE", "TRUE", "TRUE"),
	lx("7", "INT", "7"), lx("0435", "INT", "0435"), lx("0x1F", "INT", "0x1F"), lx("0", "INT", "0"), lx("-3", "INT", "-3"),
	lx(`"x y"`, "STRING", "x y"), lx(`"é"`, "STRING", "é"),
	{[]lexTok{{"ascii", "STRINGTYPE", "ascii"}, {`"z"`, "STRING", "z"}}},
	lx("`r1\n r2`", "RAWSTRING", "r1\n r2"),
	lx("\"a\"\n  \"b\"", "STRING", "a\nb"),
	lx("\"p\n   q\"", "STRING", "p q"), lx("\"t\r\n\"", "STRING", "t "), lx(`"a # b"`, "STRING", "a # b"), lx(`"//c"`, "STRING", "//c"),
	lx("==", "==", "=="), lx("!=", "!=", "!="), lx("<=", "<=", "<="), lx(">=", ">=", ">="), lx("&&", "&&", "&&"), lx("||", "||", "||"),
	lx("=", "=", "="), lx("<", "<", "<"), lx(">", ">", ">"), lx("!", "!", "!"), lx("*", "*", "*"),
	lx("(", "(", "("), lx(")", ")", ")"), lx("{", "{", "{"), lx("}", "}", "}"), lx("[", "[", "["), lx("]", "]", "]"), lx(",", ",", ","), lx(":", ":", ":"),
	lx("$", "ILLEGAL", "$"), lx("€", "ILLEGAL", "€"), lx("&", "ILLEGAL", "&"),
}

var lexSeps = []string{"", " ", "\t", "\n", "\r\n", "# c\n", "// é\n", "  \t "}

// long comments whose multi-byte characters sit around the 64 / 128 / 256 byte marks (used in the
// long lists only; the exhaustive pairs keep the short separators)
var lexLongSeps = func() []string {
	var out []string
	for _, n := range []int{60, 61, 62, 63, 64, 65, 125, 126, 127, 128, 253, 254, 255, 256} {
		out = append(out, "# "+strings.Repeat("x", n-2)+"ééé tail\n", "//"+strings.Repeat("y", n-2)+"日本語\n")
	}
	return out
}()

func sepText(k int) string {
	if k < len(lexSeps) {
		return lexSeps[k]
	}
	return lexLongSeps[k-len(lexSeps)]
}

func (l lexeme) text() string {
	var sb strings.Builder
	for _, t := range l.Toks {
		sb.WriteString(t.Text)
	}
	return sb.String()
}

func isStringy(t lexTok) bool { return t.Type == "STRING" }

// sepEvents decomposes separator text into adv / nl events.
func sepEvents(s string, evs *[]map[string]interface{}) {
	for len(s) > 0 {
		i := strings.IndexByte(s, '\n')
		seg := s
		if i >= 0 {
			seg = s[:i]
		}
		if len(seg) > 0 {
			*evs = append(*evs, map[string]interface{}{"ev": "adv", "nb": len(seg), "nr": utf8.RuneCountInString(seg)})
		}
		if i < 0 {
			return
		}
		*evs = append(*evs, map[string]interface{}{"ev": "nl"})
		s = s[i+1:]
	}
}

func obsTok(t token.Token) map[string]interface{} {
	return map[string]interface{}{"type": string(t.Type), "lit": t.Literal, "line": t.LineNumber, "sb": t.StartCharIndex, "sr": t.StartUtf8CharIndex,
		"eline": t.EndLineNumber, "eb": t.EndCharIndex, "er": t.EndUtf8CharIndex}
}

// lexInput builds the source text and trace of one layout of a lexeme list;
// ok = false if the layout would glue two lexemes.
func lexInput(id string, lexs []int, seps []int) (src string, evs []map[string]interface{}, ok bool) {
	var sb strings.Builder
	evs = append(evs, map[string]interface{}{"ev": "input", "id": id})
	var expected []lexTok
	type pend struct {
		ev map[string]interface{}
	}
	var tokEvs []map[string]interface{}
	for i, li := range lexs {
		sep := sepText(seps[i])
		l := lexReps[li]
		if i > 0 {
			prev := lexReps[lexs[i-1]]
			pt, nt := prev.Toks[len(prev.Toks)-1], l.Toks[0]
			if sep == "" && needSep(pt.Text, nt.Text) {
				return "", nil, false
			}
			// two string literals separated by white space only are one literal
			if isStringy(pt) && isStringy(nt) && strings.TrimSpace(sep) == "" {
				return "", nil, false
			}
			// a string type prefix must touch its string; an identifier directly
			// before a string literal would become one
			if sep == "" && nt.Type == "STRING" && pt.Type == "IDENT" {
				return "", nil, false
			}
		}
		sb.WriteString(sep)
		sepEvents(sep, &evs)
		for _, t := range l.Toks {
			sb.WriteString(t.Text)
			nl := strings.Count(t.Text, "\n")
			tail := t.Text
			if nl > 0 {
				tail = t.Text[strings.LastIndexByte(t.Text, '\n')+1:]
			}
			ev := map[string]interface{}{"ev": "tok", "type": t.Type, "lit": t.Lit, "nb": len(t.Text), "nr": utf8.RuneCountInString(t.Text),
				"nl": nl, "tailb": len(tail), "tailr": utf8.RuneCountInString(tail), "single": nl == 0 && t.Type != "RAWSTRING"}
			evs = append(evs, ev)
			tokEvs = append(tokEvs, ev)
			expected = append(expected, t)
		}
	}
	last := sepText(seps[len(lexs)])
	sb.WriteString(last)
	sepEvents(last, &evs)
	src = sb.String()
	// the real lexer
	var got []token.Token
	func() {
		defer func() {
			if r := recover(); r != nil {
				got = append(got, token.Token{Type: "PANIC", Literal: fmt.Sprint(r)})
			}
		}()
		lxr := lexer.New(src)
		for k := 0; k < len(expected)+6; k++ {
			t := lxr.NextToken()
			got = append(got, t)
			if t.Type == token.EOF {
				break
			}
		}
	}()
	none := map[string]interface{}{"type": "<none>", "lit": "", "line": 0, "sb": 0, "sr": 0, "eline": 0, "eb": 0, "er": 0}
	for k, ev := range tokEvs {
		if k < len(got) {
			ev["obs"] = obsTok(got[k])
		} else {
			ev["obs"] = none
		}
	}
	eof := map[string]interface{}{"ev": "eof", "obs": none, "extra": 0}
	if len(got) > len(expected) {
		eof["obs"] = obsTok(got[len(expected)])
		eof["extra"] = len(got) - len(expected) - 1
	}
	evs = append(evs, eof)
	return src, evs, true
}

func checkC19(c *Ctx) {
	fam, ok := cachedGenModule(c, "GenLex", map[string]int{"NLex": len(lexReps), "NSep": len(lexSeps)}, "lex.ndjson")
	if !ok {
		return
	}
	r := NewRand(c.Seed*9929 + 19)
	every := 4
	ntriples := 4000
	if !c.Quick() {
		every = 1
		ntriples = 150000
	}
	var evs []map[string]interface{}
	srcOf := map[string]string{}
	ninputs := 0
	add := func(id string, lexs, seps []int) {
		src, e, ok := lexInput(id, lexs, seps)
		if !ok {
			return
		}
		ninputs++
		srcOf[id] = src
		evs = append(evs, e...)
		if ninputs == 10 || ninputs == 2000 {
			c.Sample(map[string]interface{}{"input": src, "events": e})
		}
	}
	for i, ln := range fam["lex.ndjson"] {
		if !sampled(i, c.Seed, every) {
			continue
		}
		var m struct {
			Lex []int `json:"lex"`
			Sep []int `json:"sep"`
		}
		if jsonUnmarshal([]byte(ln), &m) != nil {
			c.Fatal("bad GenLex line")
			return
		}
		lexs := []int{m.Lex[0] - 1, m.Lex[1] - 1}
		seps := []int{m.Sep[0] - 1, m.Sep[1] - 1, m.Sep[2] - 1}
		add(fmt.Sprintf("p%d", i), lexs, seps)
	}
	// single lexemes at the very end of the input (no trailing separator) and sampled triples / longer lists
	for i := range lexReps {
		for s := range lexSeps {
			add(fmt.Sprintf("s%d.%d", i, s), []int{i}, []int{s, 0})
		}
	}
	for i := 0; i < ntriples; i++ {
		n := 3 + r.Intn(4)
		lexs := make([]int, n)
		seps := make([]int, n+1)
		for k := range lexs {
			lexs[k] = r.Intn(len(lexReps))
		}
		for k := range seps {
			seps[k] = r.Intn(len(lexSeps))
		}
		add(fmt.Sprintf("t%d", i), lexs, seps)
	}
	// large positions: several hundred lines, and one line several hundred columns wide
	for v := 0; v < 3; v++ {
		n := 700
		lexs := make([]int, n)
		seps := make([]int, n+1)
		nl := 3 // index of "\n" in lexSeps
		for k := range lexs {
			lexs[k] = r.Intn(len(lexReps))
			switch v {
			case 0:
				seps[k] = nl // one lexeme per line
			case 1:
				seps[k] = 1 // all on one line
			default:
				seps[k] = r.Intn(len(lexSeps) + len(lexLongSeps))
			}
		}
		add(fmt.Sprintf("big%d", v), lexs, seps)
	}
	to := runTraceSpec(c, "LexTrace", "LexTrace.cfg", "lex.ndjson", evs)
	nrej := 0
	for id, why := range to.Rejected {
		nrej++
		if nrej > 40 {
			break
		}
		c.Violate(Violation{What: "token stream / positions differ from the LexPos prediction: " + why, Source: srcOf[id], Key: c19Key(why)})
	}
	// layout independence of the compiled output
	nprog := 60
	if !c.Quick() {
		nprog = 1500
	}
	fc := FileCfg{MaxTops: 4, Inline: true, AutoInline: true, MapScripts: true, Raw: false,
		Ctl: GenCfg{MaxDepth: 3, MaxStmts: 3, MaxLeaves: 3, Auto: true, Switches: true, Gotos: true}}
	var recs []map[string]interface{}
	pairSrc := map[string][2]string{}
	for i := 0; i < nprog; i++ {
		f, av := GenFile(r, fc, "")
		ps := FilePieces(f, Style{R: r, Parens: true})
		base := Layout(append([]Piece{}, ps...), 0, r)
		o := Opts{Optimize: i%2 == 0, AutoVar: av}
		r0 := Compile(base, o)
		for k := 0; k < 3; k++ {
			alt := Layout(append([]Piece{}, ps...), 1+k%2, r)
			rk := Compile(alt, o)
			id := fmt.Sprintf("l%d.%d", i, k)
			pairSrc[id] = [2]string{base, alt}
			recs = append(recs, map[string]interface{}{"id": id, "out1": outLines(r0.Out), "out2": outLines(rk.Out),
				"err1": r0.Err != nil || r0.Panic != "", "err2": rk.Err != nil || rk.Panic != ""})
		}
	}
	// LF vs CRLF line ends (files without raw blocks), including string literals that
	// continue across a line end inside their quotes
	fcNoRaw := fc
	fcNoRaw.Raw = false
	for i := 0; i < nprog; i++ {
		f, av := GenFile(r, fcNoRaw, "")
		ps := FilePieces(f, Style{R: r})
		for k := range ps {
			t := ps[k].Text
			if strings.HasPrefix(t, `"`) && strings.Contains(t, " ") && r.Chance(1, 2) {
				j := strings.Index(t, " ")
				ps[k].Text = t[:j] + "\n      " + t[j+1:]
			}
		}
		lf := Layout(ps, 0, r)
		crlf := strings.ReplaceAll(lf, "\n", "\r\n")
		o := Opts{Optimize: i%2 == 0, AutoVar: av}
		r1, r2 := Compile(lf, o), Compile(crlf, o)
		id := fmt.Sprintf("crlf%d", i)
		pairSrc[id] = [2]string{lf, crlf}
		recs = append(recs, map[string]interface{}{"id": id, "out1": outLines(r1.Out), "out2": outLines(r2.Out),
			"err1": r1.Err != nil || r1.Panic != "", "err2": r2.Err != nil || r2.Panic != ""})
	}
	bad, states, ok := runPairCases(c, "SameOut", "same.ndjson", recs)
	if !ok {
		return
	}
	for id := range bad {
		c.Violate(Violation{What: "the same program in two layouts compiles to different output", Source: pairSrc[id][1],
			Detail: map[string]interface{}{"other_layout": pairSrc[id][0]}})
	}
	c.Cov("lexer_inputs", int64(ninputs))
	c.Cov("events", int64(len(evs)))
	c.Cov("layout_pairs_compiled", int64(len(recs)))
	c.Cov("states", to.States+states)
	c.Cov("transitions", to.States+states)
	c.Cov("traces_validated_against_impl", int64(ninputs))
}

func c19Key(why string) string { return "" }
