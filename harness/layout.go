package main

// ./check layout : the order of the blocks of an output file (spec/Layout.tla) against the real
// emitter.  Implementation-level, not a property check (a drift is reported, exit 2).

import (
	"fmt"
)

func init() {
	register("layout", "other", checkLayout)
}

func checkLayout(c *Ctx) {
	n := 400
	if !c.Quick() {
		n = 6000
	}
	r := NewRand(c.Seed*4409 + 21)
	fc := FileCfg{MaxTops: 5, Inline: true, AutoInline: true, MapScripts: true, Raw: true, Formats: true,
		Ctl: GenCfg{MaxDepth: 2, MaxStmts: 3, MaxLeaves: 2, Switches: true}}
	var recs []map[string]interface{}
	srcOf := map[string]string{}
	for i := 0; i < n; i++ {
		f, av := GenFile(r, fc, "")
		src, _ := RenderFile(f, Style{R: r, Layout: i % 3})
		o := Opts{Optimize: i%2 == 0, AutoVar: av, FontConfig: repoFontConfig}
		res := Compile(src, o)
		if res.Err != nil || res.Panic != "" {
			continue
		}
		evs, err := hoistEvents("x", f, res)
		if err != nil {
			c.Fatal("events: %v", err)
			return
		}
		want := map[string]bool{}
		tops := []map[string]interface{}{}
		for _, t := range f.Tops {
			if t.K == "raw" || t.K == "const" || t.Name == "" {
				continue
			}
			tops = append(tops, map[string]interface{}{"k": t.K, "name": t.Name})
			want[t.Name] = true
		}
		occ := []map[string]interface{}{}
		for _, e := range evs {
			if e["ev"] == "occur" {
				lab, _ := e["label"].(string)
				occ = append(occ, map[string]interface{}{"kind": e["kind"], "label": lab})
				want[lab] = true
			}
		}
		observed := []string{}
		for _, ln := range ParseAsm(res.Out).Lines {
			if ln["k"] == "label" && want[ln["name"].(string)] {
				observed = append(observed, ln["name"].(string))
			}
		}
		id := fmt.Sprintf("lay%d", i)
		srcOf[id] = src
		recs = append(recs, map[string]interface{}{"id": id, "tops": tops, "occ": occ, "observed": observed})
		if len(recs) == 3 {
			c.Sample(map[string]interface{}{"source": src, "observed_block_order": observed})
		}
	}
	bad, states, ok := runPairCases(c, "Layout", "layout.ndjson", recs)
	if !ok {
		return
	}
	k := 0
	for id, why := range bad {
		k++
		if k <= 5 {
			fmt.Printf("DRIFT layout: %s %s\n%s\n", id, why, srcOf[id])
		}
	}
	msg := fmt.Sprintf("layout: %d files, block order differs from Layout.tla in %d", len(recs), len(bad))
	fmt.Println(msg)
	c.CovSet("explanation", msg)
	c.Cov("evaluations", int64(len(recs)))
	c.Cov("distinct_nontrivial", int64(len(recs)))
	c.Cov("states", states)
	if len(bad) > 0 {
		c.Fatal("emitter's block order differs from Layout.tla in %d files", len(bad))
	}
}
