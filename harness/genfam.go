package main

import (
	"fmt"
	"strings"
	"time"
)

// runGenModule has TLC evaluate spec/<module>.tla (whose ASSUMEs export the
// family) with the given constants and returns the lines of each output file.
func runGenModule(c *Ctx, module string, consts map[string]int, outputs ...string) (map[string][]string, bool) {
	var sb strings.Builder
	sb.WriteString("INIT Init\nNEXT Next\n")
	for k, v := range consts {
		fmt.Fprintf(&sb, "CONSTANT %s = %d\n", k, v)
	}
	cfg := module + "Run.cfg"
	res, err := RunTLC(strings.ToLower(module), TLCJob{Module: module, Cfg: cfg, Data: map[string][]byte{cfg: []byte(sb.String())},
		Workers: 1, Timeout: 10 * time.Minute, ReadBack: outputs, HeapGB: 8})
	if err != nil || !res.Clean() {
		msg := ""
		if res != nil {
			msg = tail(res.Output, 2000)
		}
		c.Fatal("%s enumeration failed: %v\n%s", module, err, msg)
		return nil, false
	}
	out := map[string][]string{}
	for _, f := range outputs {
		for _, ln := range strings.Split(string(res.Files[f]), "\n") {
			if strings.TrimSpace(ln) != "" {
				out[f] = append(out[f], ln)
			}
		}
		if len(out[f]) == 0 {
			c.Fatal("%s produced no %s", module, f)
			return nil, false
		}
	}
	return out, true
}
