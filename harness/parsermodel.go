package main

// ./check parsermodel : the boolean-expression parser as modelled in
// spec/ParserModel.tla against (a) the meaning of the written expression and
// (b) the tree the real parser builds.  Not a property check (drift report).

import (
	"fmt"
	"math/rand"
	"strings"
	"time"

	"github.com/huderlem/poryscript/ast"
	"github.com/huderlem/poryscript/lexer"
	"github.com/huderlem/poryscript/parser"
	"github.com/huderlem/poryscript/token"
)

func init() {
	register("parsermodel", "other", checkParserModel)
}

type ptree map[string]interface{}

// shapeTokens writes a shape as abstract tokens (same parenthesisation rules as the
// pretty printer) and returns the generator's tree.
func shapeTokens(s *exprShape, idx *int, redundant bool, r *rand.Rand, toks *[]string) ptree {
	wrap := redundant && r.Intn(3) == 0
	if wrap {
		*toks = append(*toks, "(")
	}
	var t ptree
	prec := func(x *exprShape) int {
		switch x.K {
		case "or":
			return 1
		case "and":
			return 2
		}
		return 3
	}
	switch s.K {
	case "leaf":
		*idx++
		name := fmt.Sprintf("L%d", *idx)
		if s.Neg {
			*toks = append(*toks, "!")
		}
		*toks = append(*toks, name)
		t = ptree{"k": "leaf", "name": name, "neg": s.Neg}
	case "not":
		*toks = append(*toks, "!", "(")
		inner := shapeTokens(s.E, idx, redundant, r, toks)
		*toks = append(*toks, ")")
		t = ptree{"k": "not", "e": inner}
	default:
		var l, rr ptree
		if prec(s.L) < prec(s) {
			*toks = append(*toks, "(")
			l = shapeTokens(s.L, idx, redundant, r, toks)
			*toks = append(*toks, ")")
		} else {
			l = shapeTokens(s.L, idx, redundant, r, toks)
		}
		if s.K == "and" {
			*toks = append(*toks, "&&")
		} else {
			*toks = append(*toks, "||")
		}
		if prec(s.R) <= prec(s) {
			*toks = append(*toks, "(")
			rr = shapeTokens(s.R, idx, redundant, r, toks)
			*toks = append(*toks, ")")
		} else {
			rr = shapeTokens(s.R, idx, redundant, r, toks)
		}
		t = ptree{"k": s.K, "l": l, "r": rr}
	}
	if wrap {
		*toks = append(*toks, ")")
	}
	return t
}

func realTree(e ast.BooleanExpression) ptree {
	switch x := e.(type) {
	case *ast.BinaryExpression:
		k := "and"
		if x.Operator == token.OR {
			k = "or"
		}
		return ptree{"k": k, "l": realTree(x.Left), "r": realTree(x.Right)}
	case *ast.OperatorExpression:
		pos := (x.Operator == token.EQ) == (x.ComparisonValue == token.TRUE)
		return ptree{"k": "leaf", "name": x.Operand.Literal, "neg": !pos}
	}
	return ptree{"k": "unknown"}
}

func checkParserModel(c *Ctx) {
	shapes, _, ok := runGenExpr(c, 4)
	if !ok {
		return
	}
	r := rand.New(rand.NewSource(c.Seed*31337 + 5))
	var nd NDJSON
	n := 0
	for si, s := range shapes {
		for variant := 0; variant < 2; variant++ {
			toks := []string{"("}
			idx := 0
			gen := shapeTokens(s, &idx, variant == 1, r, &toks)
			toks = append(toks, ")")
			var sb strings.Builder
			for _, t := range toks {
				if strings.HasPrefix(t, "L") {
					sb.WriteString("flag(" + t + ") ")
				} else {
					sb.WriteString(t + " ")
				}
			}
			src := "script S { if " + sb.String() + "{ yes } }\n"
			var real ptree
			func() {
				defer func() { recover() }()
				prog, err := parser.New(lexer.New(src), parser.CommandConfig{}, "", "", 0, nil).ParseProgram()
				if err != nil {
					real = ptree{"k": "error", "msg": err.Error()}
					return
				}
				ifs := prog.TopLevelStatements[0].(*ast.ScriptStatement).Body.Statements[0].(*ast.IfStatement)
				real = realTree(ifs.Consequence.Expression)
			}()
			if real == nil {
				real = ptree{"k": "panic"}
			}
			nd.Add(map[string]interface{}{"id": fmt.Sprintf("x%d.%d", si, variant), "toks": toks, "gen": gen, "real": real})
			n++
			if n == 500 {
				c.Sample(map[string]interface{}{"source": src, "tokens": toks, "real_tree": real})
			}
		}
	}
	res, err := RunTLC("parsermodel", TLCJob{Module: "ParserConform", Cfg: "ParserConform.cfg", Data: map[string][]byte{"parser.ndjson": nd.Bytes()},
		Workers: c.Workers, Timeout: 20 * time.Minute, HeapGB: 8})
	if err != nil || !res.Clean() {
		c.Fatal("ParserConform run failed: %v\n%s", err, tail(res.Output, 3000))
		return
	}
	design, conform := 0, 0
	for _, m := range reCaseFlag.FindAllStringSubmatch(res.Output, -1) {
		if strings.Contains(m[4], "design") {
			design++
		} else {
			conform++
		}
		if design+conform <= 5 {
			fmt.Printf("DRIFT parser model: %s %s\n", m[3], strings.Join(strings.Fields(m[4]), " "))
		}
	}
	// every token string (mostly ill-formed): same accept / reject, same tree
	maxLen := 6
	if !c.Quick() {
		maxLen = 7
	}
	nall, driftAll := 0, 0
	if fam, ok := cachedGenModule(c, "GenCond", map[string]int{"MaxLen": maxLen}, "conds.ndjson"); ok {
		var nd2 NDJSON
		sym := []string{"(", ")", "&&", "||", "!"}
		srcOf := map[string]string{}
		for i, ln := range fam["conds.ndjson"] {
			var w []int
			if jsonUnmarshal([]byte(ln), &w) != nil {
				c.Fatal("bad GenCond line")
				return
			}
			toks := []string{"("}
			var sb strings.Builder
			sb.WriteString("( ")
			nleaf := 0
			for _, x := range w {
				if x == 6 {
					nleaf++
					name := fmt.Sprintf("L%d", nleaf)
					toks = append(toks, name)
					sb.WriteString("flag(" + name + ") ")
				} else {
					toks = append(toks, sym[x-1])
					sb.WriteString(sym[x-1] + " ")
				}
			}
			src := "script S { if " + sb.String() + "{ yes } }\n"
			var real ptree
			func() {
				defer func() {
					if recover() != nil {
						real = ptree{"k": "panic"}
					}
				}()
				prog, err := parser.New(lexer.New(src), parser.CommandConfig{}, "", "", 0, nil).ParseProgram()
				if err != nil {
					real = ptree{"k": "error"}
					return
				}
				ifs := prog.TopLevelStatements[0].(*ast.ScriptStatement).Body.Statements[0].(*ast.IfStatement)
				real = realTree(ifs.Consequence.Expression)
			}()
			id := fmt.Sprintf("w%d", i)
			srcOf[id] = src
			nd2.Add(map[string]interface{}{"id": id, "toks": toks, "real": real})
			nall++
		}
		res2, err := RunTLC("parserall", TLCJob{Module: "ParserAll", Cfg: "ParserAll.cfg", Data: map[string][]byte{"parserall.ndjson": nd2.Bytes()},
			Workers: c.Workers, Timeout: 30 * time.Minute, HeapGB: 10})
		if err != nil || !res2.Clean() {
			c.Fatal("ParserAll run failed: %v\n%s", err, tail(res2.Output, 3000))
			return
		}
		for _, m := range reCaseFlag.FindAllStringSubmatch(res2.Output, -1) {
			driftAll++
			if driftAll <= 8 {
				fmt.Printf("DRIFT parser model (all token strings): %s  %s  model: %s\n", m[3], strings.TrimSpace(srcOf[m[3]]), strings.Join(strings.Fields(m[4]), " "))
			}
		}
		c.Cov("token_strings", int64(nall))
		c.Cov("states", res.Distinct+res2.Distinct)
	}
	fmt.Printf("parsermodel: %d token strings of length <= %d over ( ) && || ! leaf; accept/reject or tree differs between model and real parser: %d\n", nall, maxLen, driftAll)
	conform += driftAll
	fmt.Printf("parsermodel: %d conditions; model tree not equivalent to the written expression: %d; real parser's tree differs from the model's: %d\n", n, design, conform)
	c.CovSet("explanation", fmt.Sprintf("ParserModel.tla on %d conditions (all GenExpr shapes <= 4 leaves, minimal and redundant parentheses): design mismatches %d, conformance mismatches %d", n, design, conform))
	c.Cov("evaluations", int64(n))
	c.Cov("distinct_nontrivial", int64(n))
	c.Cov("states", res.Distinct)
	if design+conform > 0 {
		c.Fatal("parser model drift: design %d, conformance %d", design, conform)
	}
}
