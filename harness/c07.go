package main

import (
	"encoding/json"
	"fmt"
	"os"
	"path/filepath"
	"regexp"
	"strings"
	"time"

	"github.com/huderlem/poryscript/parser"
)

var reFmtCode = regexp.MustCompile(`{[^}]*}`)

func init() {
	register("C07", "model_checking", checkC07)
}

// fmtWord is the source text of the word at token position i with pixel width w.
// Letters are 1 px wide; {Cn} control codes are n px wide; é is a 1 px letter.
func fmtWord(i, w int, variant int) string {
	letter := string(rune('a' + i%20))
	switch variant % 11 {
	case 7:
		// two control codes glued together: one word that begins and ends with a code but is not one code
		if w == 2 {
			return "{C1}{C1}"
		}
		if w == 3 {
			return []string{"{C1}{C2}", "{C2}{C1}", "{C1}" + letter + "{C1}"}[i%3]
		}
		if w >= 4 {
			return "{C1}" + strings.Repeat(letter, w-3) + "{C2}"
		}
	case 8:
		// characters and codes whose width in the table is 0 (the font has a non-zero "default" too)
		return []string{strings.Repeat(letter, w) + "{Z}", "^" + strings.Repeat(letter, w), strings.Repeat(letter, w) + "^^"}[i%3]
	case 9:
		if w >= 2 {
			return letter + "{Z}" + strings.Repeat(letter, w-1)
		}
	case 5:
		// white space that is not the blank: part of the word (1 px each in the tables)
		if w >= 3 {
			return letter + []string{"\u00a0", "\u3000", "\t"}[i%3] + strings.Repeat(letter, w-2)
		}
	case 6:
		if w == 3 {
			return "{C  S}" + letter // a control code containing two blanks, 2 px
		}
	case 4:
		// a closing brace that closes nothing is an ordinary 1 px character
		if w >= 2 {
			if i%2 == 0 {
				return strings.Repeat(letter, w-1) + "}"
			}
			return "}" + strings.Repeat(letter, w-1)
		}
	case 1:
		if w >= 2 {
			return fmt.Sprintf("{C%d}", w-1) + letter // a control code glued to a letter
		}
	case 2:
		return strings.Repeat("é", 1) + strings.Repeat(letter, w-1)
	case 3:
		if w == 3 {
			return "{C S}" + letter // a control code containing a blank, 2 px
		}
	}
	return strings.Repeat(letter, w)
}

// fmtInt writes a number as the language allows it: decimal, or hex in either case
func fmtInt(r *Rand, v int) string {
	switch r.Intn(4) {
	case 0:
		return fmt.Sprintf("0x%x", v)
	case 1:
		return fmt.Sprintf("0x%X", v)
	}
	return fmt.Sprint(v)
}

var fmtCodes = map[int]string{4: `\n`, 5: `\l`, 6: `\p`, 7: `\N`}

func fmtFont(sp int) parser.Fonts {
	w := map[string]int{" ": sp, "é": 1, "}": 1, "{C1}": 1, "{C2}": 2, "{C S}": 2, "{C  S}": 2, "\u00a0": 1, "\u3000": 1, "\t": 1, "default": 1, "{Z}": 0, "^": 0}
	for ch := 'a'; ch <= 'z'; ch++ {
		w[string(ch)] = 1
	}
	return parser.Fonts{Widths: w}
}

// fmtRender writes the token list as text with irregular spacing.
func fmtRender(toks []int, r *Rand, variant int) (string, []string, []map[string]interface{}) {
	var sb strings.Builder
	words := make([]string, len(toks))
	model := []map[string]interface{}{}
	if r.Chance(1, 4) {
		sb.WriteString(" ")
	}
	for i, t := range toks {
		if t <= 3 {
			words[i] = fmtWord(i, t, variant+i)
			model = append(model, map[string]interface{}{"k": "w", "w": t, "c": ""})
		} else {
			words[i] = fmtCodes[t]
			model = append(model, map[string]interface{}{"k": "b", "w": 0, "c": fmtCodes[t]})
		}
		if i > 0 {
			prevBreak, curBreak := toks[i-1] > 3, t > 3
			switch {
			case prevBreak || curBreak:
				// break codes may be glued to their neighbours
				sb.WriteString(strings.Repeat(" ", r.Intn(3)))
			default:
				sb.WriteString(strings.Repeat(" ", 1+r.Intn(3)))
			}
		}
		sb.WriteString(words[i])
	}
	if r.Chance(1, 4) {
		sb.WriteString("  ")
	}
	return sb.String(), words, model
}

// fmtParse reads the formatter's result back into lines of word positions.
func fmtParse(out string, words []string) []map[string]interface{} {
	lines := []map[string]interface{}{}
	if out == "" {
		return lines
	}
	segs := strings.Split(out, "\n")
	// word texts may repeat in long lists: an output word is the next input word with that text
	cur := 0
	next := func(f string) int {
		for k := cur; k < len(words); k++ {
			if words[k] == f {
				cur = k + 1
				return k + 1
			}
		}
		return 0
	}
	for si, seg := range segs {
		end := ""
		for _, c := range []string{`\n`, `\l`, `\p`} {
			if strings.HasSuffix(seg, c) {
				end = c
				seg = strings.TrimSuffix(seg, c)
				break
			}
		}
		if si == len(segs)-1 && seg == "" && end == "" {
			break // the text ended with a break
		}
		ws := []int{}
		// words are separated by exactly one blank; "{C S}" contains one
		for _, f := range splitFmtWords(seg) {
			ws = append(ws, next(f))
		}
		lines = append(lines, map[string]interface{}{"ws": ws, "end": end})
	}
	return lines
}

func splitFmtWords(seg string) []string {
	if seg == "" {
		return nil
	}
	var out []string
	depth := 0
	cur := ""
	for _, ch := range seg {
		switch {
		case ch == '{':
			depth++
			cur += string(ch)
		case ch == '}':
			if depth > 0 {
				depth--
			}
			cur += string(ch)
		case ch == ' ' && depth == 0:
			out = append(out, cur)
			cur = ""
		default:
			cur += string(ch)
		}
	}
	return append(out, cur)
}

func checkC07(c *Ctx) {
	maxToks := 4
	fam, ok := cachedGenModule(c, "GenFmt", map[string]int{"MaxToks": maxToks}, "fmt.ndjson")
	if !ok {
		return
	}
	// the filler model itself: words kept, lines fit, discipline, moved only if needed
	mres, err := RunTLC("c07.model", TLCJob{Module: "FormatText", Cfg: "FormatText.cfg", Workers: c.Workers, Timeout: 10 * time.Minute})
	if err != nil || !mres.Clean() || strings.Contains(mres.Output, "is violated") {
		c.Fatal("model checking FormatText.tla failed: %v\n%s", err, tail(mres.Output, 2500))
		return
	}
	if !c.Quick() {
		// the same invariants with symbolic widths and parameters (Apalache)
		ok, msg := runFormatSym(c, false)
		c.CovSet("symbolic_widths", msg)
		if !ok && strings.Contains(msg, "violated") {
			c.Fatal("FormatTextSym: %s", msg) // the model itself is wrong; an undecided run (timeout, tool missing) is only recorded
			return
		}
	}
	r := NewRand(c.Seed*2477 + 7)
	var recs []map[string]interface{}
	describe := map[string]string{}
	every4 := 6
	if !c.Quick() {
		every4 = 1
	}
	n := 0
	for li, ln := range fam["fmt.ndjson"] {
		var toks []int
		if json.Unmarshal([]byte(ln), &toks) != nil {
			c.Fatal("bad GenFmt line")
			return
		}
		if len(toks) == maxToks && !sampled(li, c.Seed, every4) {
			continue
		}
		for max := 3; max <= 6; max++ {
			for ov := 0; ov <= 2; ov++ {
				for nl := 1; nl <= 3; nl++ {
					sp := 1
					if (li+max+ov+nl)%5 == 0 {
						sp = 2
					}
					text, words, model := fmtRender(toks, r, li+max)
					fc := parser.FontConfig{DefaultFontID: "T", Fonts: map[string]parser.Fonts{"T": fmtFont(sp)}}
					out, ferr := safeFormat(&fc, text, max, ov, "T", nl)
					id := fmt.Sprintf("d%d.%d.%d.%d", li, max, ov, nl)
					describe[id] = fmt.Sprintf("FormatText(%q, max=%d, overlap=%d, font with blank=%d px, numLines=%d) = %q err=%v", text, max, ov, sp, nl, out, ferr)
					recs = append(recs, map[string]interface{}{"id": id, "P": map[string]int{"max": max, "ov": ov, "nl": nl, "sp": sp},
						"T": model, "lines": fmtParse(out, words), "err": ferr != nil})
					n++
					if n == 77 || n == 9000 {
						c.Sample(map[string]interface{}{"call": describe[id]})
					}
					if n%5 == 0 {
						// the built-in measuring font "TEST": every character 10 px, every {code} 100 px
						tm := make([]map[string]interface{}, len(model))
						for k, m := range model {
							tm[k] = map[string]interface{}{"k": m["k"], "w": m["w"], "c": m["c"]}
							if m["k"] == "w" {
								codes := reFmtCode.FindAllString(words[k], -1)
								rest := reFmtCode.ReplaceAllString(words[k], "")
								tm[k]["w"] = 100*len(codes) + 10*len([]rune(rest))
							}
						}
						tout, terr := safeFormat(&fc, text, max*10, ov*10, "TEST", nl)
						tid := "t" + id
						describe[tid] = fmt.Sprintf("FormatText(%q, max=%d, overlap=%d, font TEST, numLines=%d) = %q err=%v", text, max*10, ov*10, nl, tout, terr)
						recs = append(recs, map[string]interface{}{"id": tid, "P": map[string]int{"max": max * 10, "ov": ov * 10, "nl": nl, "sp": 10},
							"T": tm, "lines": fmtParse(tout, words), "err": terr != nil})
					}
				}
			}
		}
	}
	// long texts: 40-160 tokens (many lines, many paragraphs), parameters from a wider range
	nlong := 60
	if !c.Quick() {
		nlong = 1500
	}
	for k := 0; k < nlong; k++ {
		n := 40 + r.Intn(121)
		toks := make([]int, n)
		for i := range toks {
			toks[i] = 1 + r.Intn(3)
			if r.Chance(1, 9) {
				toks[i] = 4 + r.Intn(4)
			}
		}
		max, ov, nl, sp := 4+r.Intn(30), r.Intn(6), 1+r.Intn(12), 1+r.Intn(2)
		text, words, model := fmtRender(toks, r, k)
		fc := parser.FontConfig{DefaultFontID: "T", Fonts: map[string]parser.Fonts{"T": fmtFont(sp)}}
		out, ferr := safeFormat(&fc, text, max, ov, "T", nl)
		id := fmt.Sprintf("long%d", k)
		describe[id] = fmt.Sprintf("FormatText(%q, max=%d, overlap=%d, font with blank=%d px, numLines=%d) = %q err=%v", text, max, ov, sp, nl, out, ferr)
		recs = append(recs, map[string]interface{}{"id": id, "P": map[string]int{"max": max, "ov": ov, "nl": nl, "sp": sp},
			"T": model, "lines": fmtParse(out, words), "err": ferr != nil})
	}
	// boxes with very many lines: one paragraph of several hundred one-word lines, numLines around 128 / 256
	for k, nl := range []int{100, 127, 128, 129, 200, 255, 256, 257, 400} {
		n := 420
		toks := make([]int, n)
		for i := range toks {
			toks[i] = 2 + i%2
		}
		if k%3 == 1 {
			toks[n/2] = 7 // one \N in the middle
		}
		text, words, model := fmtRender(toks, r, 0) // variant 0 would vary shapes by position: fine
		fc := parser.FontConfig{DefaultFontID: "T", Fonts: map[string]parser.Fonts{"T": fmtFont(1)}}
		out, ferr := safeFormat(&fc, text, 4, 1, "T", nl)
		id := fmt.Sprintf("tall%d", nl)
		describe[id] = fmt.Sprintf("FormatText(<420 words>, max=4, overlap=1, numLines=%d) err=%v", nl, ferr)
		recs = append(recs, map[string]interface{}{"id": id, "P": map[string]int{"max": 4, "ov": 1, "nl": nl, "sp": 1},
			"T": model, "lines": fmtParse(out, words), "err": ferr != nil})
	}
	ndirect := len(recs)

	// parameter plumbing: format(...) through the real parser with positional, named and
	// config-default parameters and the -l / -f options
	dir, derr := newScratch("c07fonts")
	if derr != nil {
		c.Fatal("scratch dir: %v", derr)
		return
	}
	defer os.RemoveAll(dir)
	nplumb := 1200
	if !c.Quick() {
		nplumb = 8000
	}
	lists := fam["fmt.ndjson"]
	for k := 0; k < nplumb; k++ {
		var toks []int
		json.Unmarshal([]byte(lists[r.Intn(len(lists))]), &toks)
		if len(toks) == 0 {
			continue
		}
		text, words, model := fmtRender(toks, r, k)
		if strings.Contains(text, `"`) {
			continue
		}
		// two fonts with different tables and defaults
		spA, spB := 1, 2
		fA, fB := fmtFont(spA), fmtFont(spB)
		fA.MaxLineLength, fA.NumLines, fA.CursorOverlapWidth = 3+r.Intn(4), r.Intn(4), r.Intn(3)
		fB.MaxLineLength, fB.NumLines, fB.CursorOverlapWidth = 3+r.Intn(4), r.Intn(4), r.Intn(3)
		// characters missing from a font's table take that font's own "default" width
		fA.Widths["default"], fB.Widths["default"] = 2, 3
		cfg := parser.FontConfig{DefaultFontID: "A", Fonts: map[string]parser.Fonts{"A": fA, "B": fB}}
		b, _ := json.Marshal(cfg)
		fpath := filepath.Join(dir, fmt.Sprintf("f%d.json", k%8))
		os.WriteFile(fpath, b, 0o644)
		o := Opts{Optimize: true, FontConfig: fpath}
		if r.Chance(1, 3) {
			o.FontID = "B"
		}
		if r.Chance(1, 3) {
			o.MaxLine = 3 + r.Intn(4)
		}
		// explicit parameters
		font, max, nl, ov := "", 0, 0, 0
		var args []string
		switch r.Intn(5) {
		case 0:
		case 1:
			font = r.Pick([]string{"A", "B"})
			args = append(args, `"`+font+`"`)
			if r.Chance(1, 2) {
				max = 3 + r.Intn(4)
				args = append(args, fmt.Sprint(max))
			}
		case 2:
			max = 3 + r.Intn(4)
			args = append(args, fmtInt(r, max))
			if r.Chance(1, 2) {
				font = r.Pick([]string{"A", "B"})
				args = append(args, `"`+font+`"`)
			}
		default:
		}
		named := r.Perm(4)
		for _, q := range named[:r.Intn(4)] {
			switch q {
			case 0:
				if font == "" {
					font = r.Pick([]string{"A", "B"})
					args = append(args, `fontId="`+font+`"`)
				}
			case 1:
				if max == 0 {
					max = 3 + r.Intn(4)
					args = append(args, "maxLineLength="+fmtInt(r, max))
				}
			case 2:
				nl = 1 + r.Intn(3)
				args = append(args, "numLines="+fmtInt(r, nl))
			case 3:
				ov = 1 + r.Intn(2)
				args = append(args, "cursorOverlapWidth="+fmtInt(r, ov))
			}
		}
		// effective parameters by the documented precedence: explicit, then option, then font config
		effFont := font
		if effFont == "" {
			effFont = o.FontID
		}
		if effFont == "" {
			effFont = "A"
		}
		ef := cfg.Fonts[effFont]
		effMax := max
		if effMax == 0 {
			effMax = o.MaxLine
		}
		if effMax == 0 {
			effMax = ef.MaxLineLength
		}
		effNl := nl
		if effNl == 0 {
			effNl = ef.NumLines
		}
		if effNl == 0 {
			effNl = 2
		}
		effOv := ov
		if effOv == 0 {
			effOv = ef.CursorOverlapWidth
		}
		effSp := map[string]int{"A": spA, "B": spB}[effFont]
		// one word of the effective font's default width is written with a letter that is in no table
		dw := cfg.Fonts[effFont].Widths["default"]
		for wi, t := range toks {
			if t == dw && r.Chance(3, 4) && strings.Count(text, words[wi]) == 1 {
				text = strings.Replace(text, words[wi], "Q", 1)
				words[wi] = "Q"
				break
			}
		}
		call := `format("` + text + `"`
		if len(args) > 0 {
			call += ", " + strings.Join(args, ", ")
		}
		call += ")"
		src := "text Out {\n    " + call + "\n}\n"
		res := Compile(src, o)
		id := fmt.Sprintf("p%d", k)
		got := ""
		if res.Err == nil && res.Panic == "" {
			_, dl := defLines(ParseAsm(res.Out), "Out")
			var parts []string
			for _, l := range dl {
				parts = append(parts, l["content"].(string))
			}
			got = strings.TrimSuffix(strings.Join(parts, "\n"), "$")
		}
		describe[id] = fmt.Sprintf("%s with fonts A=%+v B=%+v options -f %q -l %d => %q err=%v", src, fA, fB, o.FontID, o.MaxLine, got, res.Err)
		recs = append(recs, map[string]interface{}{"id": id, "P": map[string]int{"max": effMax, "ov": effOv, "nl": effNl, "sp": effSp},
			"T": model, "lines": fmtParse(got, words), "err": res.Err != nil || res.Panic != ""})
		if k == 3 {
			c.Sample(map[string]interface{}{"call": describe[id]})
		}
	}
	// large parameter values through the parser: numLines / maxLineLength / cursorOverlapWidth written as
	// numbers beyond 127 / 255 / 32767, positionally and by name, on a paragraph of several hundred lines
	{
		fBig := fmtFont(1)
		fBig.MaxLineLength, fBig.NumLines, fBig.CursorOverlapWidth = 4, 2, 0
		cfgb, _ := json.Marshal(parser.FontConfig{DefaultFontID: "A", Fonts: map[string]parser.Fonts{"A": fBig}})
		fpath := filepath.Join(dir, "big.json")
		os.WriteFile(fpath, cfgb, 0o644)
		n := 400
		toks := make([]int, n)
		for i := range toks {
			toks[i] = 2 + i%2
		}
		for k, pv := range []struct {
			args        string
			max, ov, nl int
		}{
			{`numLines=127`, 4, 0, 127}, {`numLines=128`, 4, 0, 128}, {`numLines=130`, 4, 0, 130}, {`numLines=256`, 4, 0, 256}, {`numLines=300`, 4, 0, 300},
			{`maxLineLength=300`, 300, 0, 2}, {`40000`, 40000, 0, 2}, {`maxLineLength=6, cursorOverlapWidth=200`, 6, 200, 2}, {`5, numLines=1000`, 5, 0, 1000},
		} {
			text, words, model := fmtRender(toks, r, 0)
			src := "text Out {\n    format(\"" + text + "\", " + pv.args + ")\n}\n"
			res := Compile(src, Opts{Optimize: true, FontConfig: fpath})
			got := ""
			if res.Err == nil && res.Panic == "" {
				_, dl := defLines(ParseAsm(res.Out), "Out")
				var parts []string
				for _, l := range dl {
					parts = append(parts, l["content"].(string))
				}
				got = strings.TrimSuffix(strings.Join(parts, "\n"), "$")
			}
			id := fmt.Sprintf("bigparam%d", k)
			describe[id] = fmt.Sprintf("format(<400 words>, %s) with a font of maxLineLength 4, numLines 2 err=%v", pv.args, res.Err)
			recs = append(recs, map[string]interface{}{"id": id, "P": map[string]int{"max": pv.max, "ov": pv.ov, "nl": pv.nl, "sp": 1},
				"T": model, "lines": fmtParse(got, words), "err": res.Err != nil || res.Panic != ""})
		}
	}
	// the options -f, -l and -fc reach format() through the real binary as through the library
	{
		var cli []CLICase
		src := "text A {\n    format(\"Please take good care of this rare POKeMON for me okay thanks a lot\")\n}\n" +
			"script S {\n    msgbox(format(\"one two three four five six seven eight nine ten eleven twelve\", 100))\n    msgbox(format(\"aaaaa bbbbb ccccc ddddd eeeee fffff ggggg\", fontId=\"1_latin_frlg\"))\n}\n"
		k := 0
		for _, fid := range []string{"", "1_latin_frlg", "1_latin_rse", "no_such_font"} {
			for _, ml := range []int{0, 80, 150} {
				for _, fcp := range []string{repoFontConfig, filepath.Join(dir, "f0.json")} {
					if fcp != repoFontConfig && fid != "" {
						continue
					}
					cli = append(cli, CLICase{ID: fmt.Sprintf("fcli%d", k), Src: src, Opts: Opts{Optimize: true, FontConfig: fcp, FontID: fid, MaxLine: ml}, Stdin: k%2 == 0, ToFile: k%3 == 0})
					k++
				}
			}
		}
		cliCheck(c, cli, "format() options")
	}
	allLen := 5
	if !c.Quick() {
		allLen = 6
	}
	allStates := formatAll(c, allLen)
	bad, states, ok := runPairCases(c, "FormatCases", "fmtcases.ndjson", recs)
	states += allStates
	if !ok {
		return
	}
	nb := 0
	for id := range bad {
		nb++
		if nb > 25 {
			break
		}
		c.Violate(Violation{What: "format() result differs from the greedy text-box filler of FormatText.tla: " + describe[id]})
	}
	c.Cov("direct_calls", int64(ndirect))
	c.Cov("format_through_parser", int64(len(recs)-ndirect))
	c.Cov("states", mres.Distinct+states)
	c.Cov("transitions", mres.Generated+states)
	c.Cov("model_states", mres.Distinct)
	c.Cov("traces_validated_against_impl", int64(len(recs)))
}

func safeFormat(fc *parser.FontConfig, text string, max, ov int, font string, nl int) (out string, err error) {
	defer func() {
		if r := recover(); r != nil {
			err = fmt.Errorf("panic: %v", r)
		}
	}()
	return fc.FormatText(text, max, ov, font, nl)
}

// formatAll: the real FormatText on EVERY character string of length <= n over
// { a blank \ n p N { } } under two parameter sets each, against FormatLex!Formatted.  A difference on
// a string whose reading the property fixes (FormatLex!WellFormed) is a violation; elsewhere it is
// reported as a note (the tokeniser model describes the implementation there).
var fmtAllAlphabet = []string{"a", " ", "\\", "n", "p", "N", "{", "}"}

func formatAll(c *Ctx, maxLen int) int64 {
	fam, ok := cachedGenModule(c, "GenChars", map[string]int{"MaxLen": maxLen, "NSym": len(fmtAllAlphabet)}, "chars.ndjson")
	if !ok {
		return 0
	}
	fc := parser.FontConfig{DefaultFontID: "F", Fonts: map[string]parser.Fonts{"F": {Widths: map[string]int{" ": 1, "default": 1}}}}
	type pset struct{ max, ov, nl int }
	var grid []pset
	for _, m := range []int{2, 3, 5} {
		for _, o := range []int{0, 1} {
			for _, n := range []int{1, 2, 3} {
				grid = append(grid, pset{m, o, n})
			}
		}
	}
	var nd NDJSON
	desc := map[string]string{}
	inBatch, nviol, ndrift, ncases := 0, 0, 0, 0
	var states int64
	failed := false
	flush := func() {
		if inBatch == 0 || failed {
			return
		}
		res, err := RunTLC("formatall", TLCJob{Module: "FormatAll", Cfg: "FormatAll.cfg", Data: map[string][]byte{"formatall.ndjson": nd.Bytes()},
			Workers: c.Workers, Timeout: 30 * time.Minute, HeapGB: 10})
		if err != nil || !res.Clean() {
			c.Fatal("FormatAll run failed: %v\n%s", err, tail(res.Output, 3000))
			failed = true
			return
		}
		for _, m := range reCaseFlag.FindAllStringSubmatch(res.Output, -1) {
			if strings.Contains(m[4], "violation") {
				nviol++
				if nviol <= 5 {
					c.Violate(Violation{What: "format() of a well-formed text differs from the text-box filler of FormatStep.tla on the words FormatLex.tla reads: " + desc[m[3]] +
						" expected " + strings.Join(strings.Fields(m[4]), " ")})
				}
			} else {
				ndrift++
				if ndrift <= 3 {
					fmt.Printf("note: FormatText differs from the tokeniser model on a text outside the property's vocabulary: %s\n", desc[m[3]])
				}
			}
		}
		states += res.Distinct
		nd = NDJSON{}
		inBatch = 0
	}
	for i, ln := range fam["chars.ndjson"] {
		var w []int
		if jsonUnmarshal([]byte(ln), &w) != nil {
			continue
		}
		chars := make([]string, len(w))
		for k, x := range w {
			chars[k] = fmtAllAlphabet[x-1]
		}
		text := strings.Join(chars, "")
		for k, p := range []pset{grid[i%len(grid)], grid[(i*7+5)%len(grid)]} {
			out, err := safeFormat(&fc, text, p.max, p.ov, "F", p.nl)
			id := fmt.Sprintf("a%d.%d", i, k)
			desc[id] = fmt.Sprintf("FormatText(%q, max=%d, overlap=%d, every character and code 1 px, numLines=%d) = %q err=%v", text, p.max, p.ov, p.nl, out, err)
			nd.Add(map[string]interface{}{"id": id, "chars": chars, "P": map[string]int{"max": p.max, "ov": p.ov, "nl": p.nl, "sp": 1}, "out": out, "err": err != nil})
			ncases++
			inBatch++
		}
		if inBatch >= 100000 {
			flush()
		}
	}
	flush()
	c.Cov("format_all_strings_cases", int64(ncases))
	c.Cov("format_all_notes_outside_vocabulary", int64(ndrift))
	return states
}
