package main

import (
	"fmt"
	"github.com/huderlem/poryscript/lexer"
	"github.com/huderlem/poryscript/token"
	"os"
	"path/filepath"
	"runtime"
	"strings"
	"sync"
	"time"
	"unicode/utf8"
)

func init() {
	register("C18", "exploration", checkC18)
}

var mutVocab = []string{
	"script", "text", "movement", "mart", "mapscripts", "raw", "const", "poryswitch", "format", "moves", "value",
	"if", "elif", "else", "while", "do", "switch", "case", "default", "break", "continue", "var", "flag", "defeated",
	"global", "local", "TRUE", "{", "}", "(", ")", "[", "]", ",", ":", "=", "==", "!=", "<", ">=", "&&", "||", "!", "*",
	"foo", "_", "7", "0x1F", "-3", "0", `"str"`, `ascii"x"`, "`raw`", "autoa", "autob",
	// hostile: NUL, U+FFFD (valid UTF-8), CR, a 4-byte rune, an unterminated string / raw string, a lone surrogate-free BOM
	"\x00", "\ufffd", "\r", "\U0001F600", `"unterminated`, "`unterminated", "\ufeff", "é", "#", "//", "/", "&", "|", "$",
	// decimal digits that are not ASCII (unicode.IsDigit accepts them), a lone minus
	"٣", "７5", "-٣", "-",
}

type outcome struct {
	Kind    string `json:"kind"`
	SL      int    `json:"sl"`
	EL      int    `json:"el"`
	Located bool   `json:"located"`
	Env     bool   `json:"env"`
}

func isEnvMessage(msg string) bool {
	return strings.Contains(msg, "'-s' option") || strings.Contains(msg, "fontID") || strings.Contains(msg, "font config") || strings.Contains(msg, "compile switches")
}

func outcomeOf(src string, o Opts, limit time.Duration) outcome {
	res := CompileLimit(src, o, limit)
	switch {
	case res.TimedOut:
		return outcome{Kind: "timeout"}
	case res.Panic != "":
		return outcome{Kind: "panic"}
	case res.Err != nil:
		oc := outcome{Kind: "err", Env: isEnvMessage(res.Err.Error())}
		if res.PErr != nil {
			oc.Located, oc.SL, oc.EL = true, res.PErr.LineNumberStart, res.PErr.LineNumberEnd
		}
		return oc
	}
	return outcome{Kind: "out"}
}

type robustInput struct {
	src string
	o   Opts
}

func checkC18(c *Ctx) {
	r := NewRand(c.Seed*12289 + 18)
	nseeds, subEvery := 10, 5
	if !c.Quick() {
		nseeds, subEvery = 400, 1
	}
	fam, ok := cachedGenModule(c, "GenMut", map[string]int{"N": 60, "V": len(mutVocab)}, "edits.ndjson")
	if !ok {
		return
	}
	type edit struct {
		Op  string `json:"op"`
		Pos int    `json:"pos"`
		Tok int    `json:"tok"`
	}
	var edits []edit
	for _, ln := range fam["edits.ndjson"] {
		var e edit
		if jsonUnmarshal([]byte(ln), &e) != nil {
			c.Fatal("bad GenMut line")
			return
		}
		edits = append(edits, e)
	}
	fc := FileCfg{MaxTops: 3, Inline: true, AutoInline: true, MapScripts: true, Raw: true, Formats: true,
		Ctl: GenCfg{MaxDepth: 2, MaxStmts: 2, MaxLeaves: 2, Auto: true, Switches: true, Gotos: true}}
	var inputs []robustInput
	optSets := func(av map[string]AutoV) []Opts {
		sw := map[string]string{"GAME": "RUBY", "LANG": "EN"}
		return []Opts{
			{Optimize: true, AutoVar: av, Switches: sw, FontConfig: repoFontConfig},
			{Optimize: false, LineMarkers: true, InputPath: "in.pory", AutoVar: av},                       // no switches, no font config
			{Optimize: true, AutoVar: av, Switches: sw, FontConfig: repoFontConfig, FontID: "bogus_font"}, // unknown default font
			{Optimize: true, AutoVar: av, Switches: sw, FontConfig: "/nonexistent/fonts.json", MaxLine: 100},
		}
	}
	join := func(toks []string) string { return strings.Join(toks, " ") + "\n" }
	for s := 0; s < nseeds; s++ {
		R, av := GenFile(r, fc, "")
		P, _ := DecorateFile(R, map[string]string{"GAME": "RUBY", "LANG": "EN"}, r, true, true, true, false)
		ps := FilePieces(P, Style{R: r})
		var toks []string
		for _, p := range ps {
			if p.Glue && len(toks) > 0 {
				toks[len(toks)-1] += p.Text
			} else {
				toks = append(toks, p.Text)
			}
		}
		if len(toks) > 60 {
			// a window of the file (kept syntactically meaningful by starting at a top-level keyword where possible)
			start := r.Intn(len(toks) - 59)
			toks = toks[start : start+60]
		}
		opts := optSets(av)
		inputs = append(inputs, robustInput{join(toks), opts[s%len(opts)]})
		for ei, e := range edits {
			if e.Pos > len(toks) {
				continue
			}
			if (e.Op == "sub" || e.Op == "ins") && subEvery > 1 && (ei+s)%subEvery != 0 {
				continue
			}
			var m []string
			i := e.Pos - 1
			switch e.Op {
			case "trunc":
				m = append(m, toks[:i]...)
			case "del":
				m = append(append(m, toks[:i]...), toks[i+1:]...)
			case "dup":
				m = append(append(append(m, toks[:i+1]...), toks[i]), toks[i+1:]...)
			case "swap":
				if i+1 >= len(toks) {
					continue
				}
				m = append(m, toks...)
				m[i], m[i+1] = m[i+1], m[i]
			case "sub":
				m = append(m, toks...)
				m[i] = mutVocab[e.Tok-1]
			case "ins":
				m = append(append(append(m, toks[:i]...), mutVocab[e.Tok-1]), toks[i:]...)
			}
			src := join(m)
			if e.Op == "trunc" && ei%2 == 0 {
				src = strings.TrimRight(src, "\n") // also without the final newline
			}
			if !utf8.ValidString(src) {
				continue
			}
			inputs = append(inputs, robustInput{src, opts[(ei+s)%len(opts)]})
		}
	}
	// every option set on small complete files that use format(), poryswitch and AutoVar
	for _, src := range []string{
		"text T {\n    format(\"Hello there world\")\n}\n",
		"script S {\n    lock\n    msgbox(format(\"Hello there world\", \"unknown_font\"))\n}\n",
		"script S {\n    msgbox(format(\"Hello\",\n fontId=\"nope\", numLines=3))\n}\n",
		"script S {\n    poryswitch(GAME) {\n        RUBY: a\n        _: b\n    }\n}\n",
		"script S {\n\n    poryswitch(UNSET) {\n        RUBY: a\n    }\n}\nmovement M {\n    poryswitch(UNSET) { X: walk_up }\n}\nmart N {\n poryswitch(UNSET) { X { ITEM_A } }\n}\ntext T { poryswitch(UNSET) { X: \"t\" } }\n",
		"script S {\n    if (autoa() == 1) {\n        switch (autob(VAR_T, F)) {\n        case 1: x\n        }\n    }\n}\n",
	} {
		for _, o := range optSets(genAutoVar()) {
			inputs = append(inputs, robustInput{src, o})
		}
	}
	for _, src := range []string{
		"script S {\n    applymovement(1, moves())\n}\n",
		"script S {\n    applymovement(1, moves(poryswitch(GAME) { RUBY {} _ { walk_up * 2 } }))\n}\n",
		"script S {\n    applymovement(1, moves(poryswitch(GAME) { RUBY { walk_up } SAPPHIRE { walk_down } }))\n}\nmovement M {\n}\nmart N {\n}\n",
		"text T {\n    format(\"Hello there world\", 100)\n}\n",
		"script S {\n    msgbox(format(\"Hello there world\",\n        numLines=3, cursorOverlapWidth=2))\n}\n",
		"text T {\n    format(\"Hello there world\", 100, \"nope\")\n}\n",
		// format() texts with control codes, stray braces, multi-byte letters, nothing at all
		"script S {\n    msgbox(format(\"Hello {PLAYER}, welcome to {STR_VAR_1} town\\pBye {COLOR RED}x\"))\n}\n",
		"text T {\n    format(\"{PLAYER}\")\n}\ntext U {\n    format(\"a } b { c d\")\n}\ntext V {\n    format(\"\")\n}\n",
		"text T {\n    format(\"é{É}ß \\n  {}\\l\\p\\N \\\\ €\", 40)\n}\n",
		"script S {\n    msgbox(format(\"{A}{B} {C D} {E\", numLines=0, maxLineLength=0))\n}\n",
		"mapscripts M {\n    MAP_SCRIPT_ON_LOAD {}\n    MAP_SCRIPT_ON_FRAME_TABLE [\n        VAR_A, 0 {}\n    ]\n}\n",
		// a comment as the very last thing, without a final newline, ending in a multi-byte character
		"script S {\n    x\n}\n# fin é", "script S {\n    x\n}\n// 日本", "#é", "//€", "# a\n#\u00e9",
		// format() texts whose last byte is a backslash (there are no string escapes), lone break codes
		"text T {\n    format(\"Wait...\\\")\n}\n", "script S {\n    msgbox(format(\"a \\\\\"))\n    msgbox(format(\"\\\"))\n    msgbox(format(\"\\n\\\"))\n}\n",
		"text T {\n    format(\"{\\\")\n}\ntext U {\n    format(\"x {A\\\")\n}\n",
		// long comments with multi-byte characters around the 64 / 128 / 256 byte marks, also as the last line
		"# " + strings.Repeat("x", 61) + "ééé tail\nscript S {\n    x // " + strings.Repeat("y", 59) + "日本語 and more\n}\n",
		"script S {\n    x\n}\n#" + strings.Repeat("z", 62) + "é", "//" + strings.Repeat("z", 125) + "日本語日本語", "# " + strings.Repeat("w", 253) + "€€€\nscript S {\n}\n",
		// very large numeric parameters and multipliers
		"text T {\n    format(\"Hello there you\", 4611686018427387904)\n}\ntext U {\n    format(\"Hello there you\", 9223372036854775807)\n}\n",
		"script S {\n    msgbox(format(\"Hello there you\", numLines=9223372036854775807, cursorOverlapWidth=4611686018427387904))\n    msgbox(format(\"a b\", maxLineLength=99999999999999999999999))\n}\n",
		"movement M {\n    walk_up * 9999\n    walk_up * 10000\n}\nmovement N {\n    walk_up * 99999999999999999999\n}\nmovement O {\n    walk_up * -1\n    walk_up * 0x10\n}\n",
		// constants that name themselves or each other (what an editor sees mid-typing)
		"const X = X\nscript S {\n    foo(X)\n    if (var(X) == X) {\n        bar\n    }\n}\n",
		"const A = B\nconst B = A\nconst C = A\nscript S {\n    foo(A, B, C)\n    switch (var(A)) {\n        case B: x\n    }\n}\nmart M {\n    A\n    B\n}\n",
		"const A = A + 1\nconst B = ( B )\nscript S {\n    foo(A, B)\n}\n",
	} {
		for _, o := range optSets(genAutoVar()) {
			inputs = append(inputs, robustInput{src, o})
		}
	}
	// well-formed programs of the TLC-enumerated families: they must be answered promptly too
	if sw, ok := cachedGenModule(c, "GenSwitch", map[string]int{"MaxCases": 3}, "switches.ndjson"); ok {
		for i, ln := range sw["switches.ndjson"] {
			var f swFam
			if jsonUnmarshal([]byte(ln), &f) != nil {
				continue
			}
			if c.Quick() && !sampled(i, c.Seed, 3) && f.Ctx != "thenswitch" {
				continue
			}
			p := swProgram(fmt.Sprintf("W%d", i), &f)
			inputs = append(inputs, robustInput{RenderProg(p, Style{R: r}), Opts{Optimize: i%2 == 0}})
		}
	}
	if ctl, ok := cachedGenModule(c, "GenCtl", map[string]int{"Level": 2}, "one.ndjson", "nest.ndjson"); ok {
		for i, p := range ctlPrograms(c, ctl["one.ndjson"], "rb", 1, 0) {
			inputs = append(inputs, robustInput{RenderProg(p, Style{R: r}), Opts{Optimize: i%2 == 0}})
		}
	}
	// the complete single-edit neighbourhood of every condition shape of <= 3 leaves (GenExpr):
	// the condition parser must answer every near-miss of every expression it accepts
	if shapes, forms, ok := runGenExpr(c, 4); ok {
		every := 25
		if !c.Quick() {
			every = 1
		}
		n := 0
		for si, sh := range shapes {
			if sh.leaves() > 3 {
				continue
			}
			idx := 0
			e := instantiate(sh, forms, si, &idx, r)
			src := RenderProg(condProgram(fmt.Sprintf("X%d", si), e, si%4), Style{Parens: si%2 == 1})
			var toks []string
			lx := lexer.New(src)
			for k := 0; k < 400; k++ {
				t := lx.NextToken()
				if t.Type == token.EOF {
					break
				}
				toks = append(toks, t.Literal)
			}
			o := Opts{Optimize: si%2 == 0, AutoVar: genAutoVar()}
			add := func(m []string) {
				n++
				if sampled(n, c.Seed, every) {
					inputs = append(inputs, robustInput{join(m), o})
				}
			}
			for i := range toks {
				add(append([]string{}, toks[:i]...))
				add(append(append([]string{}, toks[:i]...), toks[i+1:]...))
				add(append(append(append([]string{}, toks[:i+1]...), toks[i]), toks[i+1:]...))
				if i+1 < len(toks) {
					m := append([]string{}, toks...)
					m[i], m[i+1] = m[i+1], m[i]
					add(m)
				}
				for _, v := range mutVocab {
					m := append([]string{}, toks...)
					m[i] = v
					add(m)
					add(append(append(append([]string{}, toks[:i]...), v), toks[i:]...))
				}
			}
		}
		c.Cov("condition_neighbourhood_size", int64(n))
	}
	// statements after a poryswitch case that ends in continue (all loop kinds, selected by match or by '_'),
	// in normal mode with the switch set and in lint mode without
	{
		_, srcs, os := contAfterPS()
		for i := range srcs {
			inputs = append(inputs, robustInput{srcs[i], Opts{Optimize: i%2 == 0, Switches: os[i].Switches}})
			inputs = append(inputs, robustInput{srcs[i], Opts{Optimize: i%2 == 1}})
		}
	}
	// every program literal of the repository's own tests (about ninety of them malformed, one per
	// error message): their errors must be located too, in both modes
	for i, lit := range corpusLiterals() {
		opts := optSets(genAutoVar())
		inputs = append(inputs, robustInput{lit, opts[i%len(opts)]})
	}
	// a font config that is not JSON
	if dir, err := newScratch("c18fc"); err == nil {
		defer os.RemoveAll(dir)
		badfc := filepath.Join(dir, "broken.json")
		os.WriteFile(badfc, []byte("{ \"defaultFontId\": \"x\", \"fonts\": [ oops"), 0o644)
		for _, src := range []string{"text T {\n    format(\"Hello {PLAYER} there\")\n}\n", "script S {\n    msgbox(\"plain\")\n}\n"} {
			inputs = append(inputs, robustInput{src, Opts{Optimize: true, FontConfig: badfc}})
		}
	}
	// a few long / deep inputs (prompt termination and bounded growth)
	deep := strings.Repeat("if (flag(A)) { ", 400) + "x" + strings.Repeat(" }", 400)
	inputs = append(inputs,
		robustInput{"script S { " + deep + " }\n", Opts{Optimize: true}},
		robustInput{"script S { if (" + strings.Repeat("(", 500) + "flag(A)" + strings.Repeat(")", 500) + ") { x } }\n", Opts{Optimize: true}},
		robustInput{"script S { if (" + strings.Repeat("flag(A) && ", 600) + "flag(B)) { x } }\n", Opts{Optimize: false}},
		robustInput{"movement M { " + strings.Repeat("walk_up * 9999 ", 40) + "}\n", Opts{Optimize: true}},
		robustInput{"script S { " + strings.Repeat("switch (var(V)) { case 1: ", 200) + "x" + strings.Repeat(" }", 200) + " }\n", Opts{Optimize: true}},
		robustInput{strings.Repeat("script S { x }\n", 3000), Opts{Optimize: true}},
	)

	type rec struct {
		nlines int
		normal outcome
		lint   outcome
	}
	results := make([]rec, len(inputs))
	var wg sync.WaitGroup
	sem := make(chan struct{}, 12)
	var ms runtime.MemStats
	runtime.ReadMemStats(&ms)
	heap0 := ms.HeapAlloc
	var peak uint64
	done := make(chan struct{})
	go func() {
		t := time.NewTicker(50 * time.Millisecond)
		defer t.Stop()
		for {
			select {
			case <-done:
				return
			case <-t.C:
				var m runtime.MemStats
				runtime.ReadMemStats(&m)
				if m.HeapAlloc > peak {
					peak = m.HeapAlloc
				}
			}
		}
	}()
	for i := range inputs {
		wg.Add(1)
		sem <- struct{}{}
		go func(i int) {
			defer wg.Done()
			defer func() { <-sem }()
			in := inputs[i]
			lo := in.o
			lo.Lint = true
			results[i] = rec{strings.Count(in.src, "\n") + 1, outcomeOf(in.src, in.o, 3*time.Second), outcomeOf(in.src, lo, 3*time.Second)}
		}(i)
	}
	wg.Wait()
	close(done)
	if peak > heap0+(3<<30) {
		c.Violate(Violation{What: fmt.Sprintf("heap grew by %d MB while compiling small inputs", (peak-heap0)>>20)})
	}
	// one TLC case per distinct outcome tuple
	type agg struct {
		n   int
		idx int
	}
	distinct := map[string]*agg{}
	var order []string
	for i, rc := range results {
		k := fmt.Sprintf("%d|%v|%v", rc.nlines, rc.normal, rc.lint)
		// line numbers only matter relative to nlines: keep the tuple as is
		if a, ok := distinct[k]; ok {
			a.n++
		} else {
			distinct[k] = &agg{1, i}
			order = append(order, k)
		}
	}
	var recs []map[string]interface{}
	exemplar := map[string]int{}
	for n, k := range order {
		a := distinct[k]
		rc := results[a.idx]
		id := fmt.Sprintf("o%d", n)
		exemplar[id] = a.idx
		recs = append(recs, map[string]interface{}{"id": id, "count": a.n, "nlines": rc.nlines, "normal": rc.normal, "lint": rc.lint})
	}
	bad, states, ok := runPairCases(c, "Robust", "outcomes.ndjson", recs)
	if !ok {
		return
	}
	n := 0
	for id, why := range bad {
		n++
		if n > 25 {
			break
		}
		in := inputs[exemplar[id]]
		o := in.o
		rc := results[exemplar[id]]
		c.Violate(Violation{What: "input not answered with output or a located error: " + why, Source: in.src, Opts: &o,
			Detail: map[string]interface{}{"normal": rc.normal, "lint": rc.lint, "lines": rc.nlines}, Key: c18Key(in.src, why)})
	}
	c.Sample(map[string]interface{}{"input": inputs[1].src, "normal": results[1].normal, "lint": results[1].lint})
	c.Sample(map[string]interface{}{"input": inputs[len(inputs)/2].src, "normal": results[len(inputs)/2].normal, "lint": results[len(inputs)/2].lint})
	c.Cov("evaluations", int64(len(inputs)*2))
	c.Cov("distinct_nontrivial", int64(len(recs)))
	c.CovSet("rule", "the complete single-edit neighbourhood (GenMut.tla: truncation, deletion, duplication, adjacent swap everywhere; substitution and insertion of each vocabulary token incl. NUL, U+FFFD, CR, 4-byte rune, BOM, unterminated string/raw - every position in the thorough tier, every 5th in the quick tier) of token windows of seeded files with all constructs and poryswitch, under 4 option sets, in normal and lint mode, plus deep/long inputs; distinct_nontrivial counts distinct outcome tuples (the TLC cases), evaluations counts compilations")
	c.Cov("inputs", int64(len(inputs)))
	c.Cov("states", states)
	c.CovSet("peak_heap_growth_mb", int64((peak-heap0)>>20))
}

func c18Key(src, why string) string { return "" }
