package main

// Lexical reading of the compiler's output into the line records ScriptVM.tla
// executes.  Nothing here interprets an instruction; the only per-opcode
// knowledge is where the operand list of the few generated control
// instructions is split (documented in DESIGN.md sec. 3.3).

import (
	"regexp"
	"strings"
)

// AsmLine is one non-blank output line.
type AsmLine map[string]interface{}

var (
	reLabel  = regexp.MustCompile(`^([^\s:]+)(::?)\s*$`)
	reMarker = regexp.MustCompile(`^# (-?\d+) "(.*)"$`)
)

// vmControlOps are the instructions ScriptVM gives a meaning to.  A user
// command with one of these names is outside the domain of the product check.
var vmControlOps = map[string]bool{
	"goto": true, "goto_if_set": true, "goto_if_unset": true, "compare": true,
	"compare_var_to_value": true, "goto_if_eq": true, "goto_if_ne": true,
	"goto_if_lt": true, "goto_if_le": true, "goto_if_gt": true, "goto_if_ge": true,
	"checktrainerflag": true, "goto_if": true, "switch": true, "case": true,
	"return": true, "end": true,
}

// splitToks splits an instruction line into tokens: blanks separate, commas
// are detached.
func splitToks(s string) []string {
	out := []string{}
	for _, f := range strings.Fields(s) {
		for len(f) > 0 {
			i := strings.IndexByte(f, ',')
			if i < 0 {
				out = append(out, f)
				break
			}
			if i > 0 {
				out = append(out, f[:i])
			}
			out = append(out, ",")
			f = f[i+1:]
		}
	}
	return out
}

func trimAll(a []string) []string {
	for i := range a {
		a[i] = strings.Join(strings.Fields(a[i]), " ")
	}
	return a
}

// splitArgs splits the operand text of an instruction.
func splitArgs(op, rest string) []string {
	rest = strings.TrimSpace(rest)
	if rest == "" {
		return []string{}
	}
	switch op {
	case "goto_if_set", "goto_if_unset", "case":
		if i := strings.LastIndexByte(rest, ','); i >= 0 {
			return trimAll([]string{rest[:i], rest[i+1:]})
		}
	case "compare", "compare_var_to_value", "goto_if":
		if i := strings.IndexByte(rest, ','); i >= 0 {
			return trimAll([]string{rest[:i], rest[i+1:]})
		}
	}
	return trimAll(strings.Split(rest, ","))
}

// ParsedAsm is the lexical view of one output file.
type ParsedAsm struct {
	Lines   []AsmLine      // non-blank, non-marker lines in order
	Markers map[int]Marker // index into Lines (0-based) of the line that follows a marker -> marker
	Raw     []string       // all physical lines
}

// Marker is a line marker "# n "file"".
type Marker struct {
	Line int
	File string
	Phys int // physical line index of the marker
}

// ParseAsm classifies every physical line.
func ParseAsm(out string) *ParsedAsm {
	pa := &ParsedAsm{Markers: map[int]Marker{}}
	pa.Raw = strings.Split(out, "\n")
	var pending *Marker
	for phys, ln := range pa.Raw {
		t := strings.TrimRight(ln, "\r")
		if strings.TrimSpace(t) == "" {
			continue
		}
		if m := reMarker.FindStringSubmatch(t); m != nil {
			n := 0
			neg := false
			for _, c := range m[1] {
				if c == '-' {
					neg = true
				} else {
					n = n*10 + int(c-'0')
				}
			}
			if neg {
				n = -n
			}
			pending = &Marker{Line: n, File: m[2], Phys: phys}
			continue
		}
		var rec AsmLine
		if m := reLabel.FindStringSubmatch(t); m != nil && !strings.HasPrefix(t, "\t") && !strings.HasPrefix(t, " ") {
			rec = AsmLine{"k": "label", "name": m[1], "g": m[2] == "::", "phys": phys + 1}
		} else {
			body := strings.TrimSpace(t)
			if strings.HasPrefix(body, ".") {
				sp := strings.IndexAny(body, " \t")
				dir, rest := body, ""
				if sp >= 0 {
					dir, rest = body[:sp], strings.TrimSpace(body[sp+1:])
				}
				rec = AsmLine{"k": "data", "dir": dir, "rest": rest, "phys": phys + 1}
			} else {
				sp := strings.IndexAny(body, " \t")
				op, rest := body, ""
				if sp >= 0 {
					op, rest = body[:sp], body[sp+1:]
				}
				rec = AsmLine{"k": "ins", "op": op, "a": splitArgs(op, rest), "toks": splitToks(body), "phys": phys + 1}
			}
		}
		if pending != nil {
			pa.Markers[len(pa.Lines)] = *pending
			pending = nil
		}
		pa.Lines = append(pa.Lines, rec)
	}
	return pa
}

var reGenSuffix = regexp.MustCompile(`^(.*)_(-?\d+)$`)

// AnnotateRoles gives every label line a role and every jump its target kind.
//
//	entry : the name of a script of the source (or of an inline map script)
//	sub   : <script>_<digits> for such a script
//	user  : a label statement written in the source
//	data  : anything else (text, movement, mart, mapscripts, tables, raw labels)
//
// It also returns lab: name -> 1-based index of the first code label
// (entry/sub/user) with that name.
func AnnotateRoles(pa *ParsedAsm, scriptNames map[string]bool, userLabels map[string]bool) map[string]interface{} {
	return AnnotateRolesRaw(pa, scriptNames, userLabels, nil)
}

var reHoisted = regexp.MustCompile(`^.+_(Text|Movement)_\d+$`)

// AnnotateRolesRaw also marks labels that the author wrote inside raw blocks.
func AnnotateRolesRaw(pa *ParsedAsm, scriptNames map[string]bool, userLabels map[string]bool, rawLabels map[string]bool) map[string]interface{} {
	lab := map[string]interface{}{"@": 0}
	isGen := func(name string) bool {
		m := reGenSuffix.FindStringSubmatch(name)
		return m != nil && scriptNames[m[1]]
	}
	// labels that a control instruction jumps to are code, whatever they are called
	jumpTargets := map[string]bool{}
	for _, ln := range pa.Lines {
		if ln["k"] != "ins" {
			continue
		}
		a := ln["a"].([]string)
		switch ln["op"].(string) {
		case "goto_if_eq", "goto_if_ne", "goto_if_lt", "goto_if_le", "goto_if_gt", "goto_if_ge":
			if len(a) == 1 {
				jumpTargets[a[0]] = true
			}
		case "goto_if_set", "goto_if_unset", "case", "goto_if":
			if len(a) == 2 {
				jumpTargets[a[1]] = true
			}
		}
	}
	for i, ln := range pa.Lines {
		switch ln["k"] {
		case "label":
			name := ln["name"].(string)
			role := "data"
			switch {
			case userLabels[name]:
				role = "user"
			case scriptNames[name]:
				role = "entry"
			case isGen(name) || jumpTargets[name]:
				role = "sub"
			}
			ln["role"] = role
			ln["raw"] = rawLabels[name]
			if role != "data" {
				if _, ok := lab[name]; !ok {
					lab[name] = i + 1
				}
			}
		case "ins":
			a := ln["a"].([]string)
			op := ln["op"].(string)
			tgt := ""
			switch op {
			case "goto", "goto_if_eq", "goto_if_ne", "goto_if_lt", "goto_if_le", "goto_if_gt", "goto_if_ge":
				if len(a) == 1 {
					tgt = a[0]
				}
			case "goto_if_set", "goto_if_unset", "case", "goto_if":
				if len(a) == 2 {
					tgt = a[1]
				}
			}
			ln["tgt"] = tgt
			// only the compiler writes conditional jumps and case lines (user
			// commands with these names are outside the domain), so their
			// targets are generated whatever they look like
			condGen := tgt != "" && op != "goto"
			hrefs := []string{}
			for _, t := range ln["toks"].([]string)[1:] {
				if reHoisted.MatchString(t) {
					hrefs = append(hrefs, t)
				}
			}
			ln["hrefs"] = hrefs
			ln["gen"] = tgt != "" && (isGen(tgt) || condGen)
		}
	}
	return lab
}
