package main

// Seeded generator of whole files: scripts whose commands carry inline text and
// moves(), text / movement / mart / mapscripts / raw statements.

import (
	"fmt"
	"strings"
)

// FileCfg bounds the random files.
type FileCfg struct {
	MaxTops    int
	Inline     bool // inline text / moves() in commands
	AutoInline bool // AutoVar conditions whose command takes inline text
	MapScripts bool
	Raw        bool
	Formats    bool
	Kinds      []string // top-level kinds to draw from (default: all)
	Ctl        GenCfg
}

var (
	genTextParts = [][]string{
		{"Hello"}, {"Hello$"}, {"Bye"}, {""}, {"A\\nB"}, {"Hi\\n", "there"}, {"Hi\\n", "there$"},
		{"x"}, {"x\\0"}, {"It costs 100"}, {"one\\p", "two\\l", "three"}, {"café"}, {"{COLOR RED}ok"},
	}
	genTextTypes = []string{"", "", "", "ascii", "braille", "custom"}
	genSteps     = []string{"walk_up", "walk_down", "face_left", "delay_16"}
	genItems     = []string{"ITEM_POTION", "ITEM_BALL", "ITEM_REPEL", "ITEM_CANDY"}
	genMSTypes   = []string{"MAP_SCRIPT_ON_LOAD", "MAP_SCRIPT_ON_TRANSITION", "MAP_SCRIPT_ON_RESUME", "MAP_SCRIPT_ON_FRAME_TABLE", "MAP_SCRIPT_ON_WARP_INTO_MAP_TABLE"}
)

type fgen struct {
	*gen
	fc      FileCfg
	cmdSeq  int
	autoCfg map[string]AutoV
	names   map[string]bool
}

func (g *fgen) inlineText() Inline {
	r := g.r
	in := Inline{Kind: "text", Parts: genTextParts[r.Intn(len(genTextParts))], Type: r.Pick(genTextTypes)}
	if g.fc.Formats && r.Chance(1, 6) {
		in.IsFmt = true
		in.Parts = [][]string{{"Hello there this is a long text"}, {"Short"}, {"A B C D E F G H I J K L M N O P Q R S T U V W X Y Z and more words"}}[r.Intn(3)]
		in.Format = []string{"", `, "1_latin_rse"`, `, 100`, `, numLines=3`, `, "1_latin_frlg", 120`}[r.Intn(5)]
	}
	return in
}

func (g *fgen) steps(maxN int) []ListItem {
	r := g.r
	n := 1 + r.Intn(maxN)
	var out []ListItem
	for i := 0; i < n; i++ {
		it := ListItem{Name: r.Pick(genSteps), Comma: r.Chance(1, 3)}
		if r.Chance(1, 4) {
			it.Mul = fmt.Sprint(1 + r.Intn(3))
		}
		out = append(out, it)
	}
	if r.Chance(1, 5) {
		out = append(out, ListItem{Name: "step_end"})
		if r.Chance(1, 2) {
			out = append(out, ListItem{Name: r.Pick(genSteps)})
		}
	}
	return out
}

func (g *fgen) inlineCmd() Stmt {
	g.cmdSeq++
	r := g.r
	name := fmt.Sprintf("msg%d", g.cmdSeq)
	switch r.Intn(4) {
	case 0:
		return Stmt{K: "cmd", Toks: []string{name, "@inl0"}, Inl: []Inline{g.inlineText()}}
	case 1:
		return Stmt{K: "cmd", Toks: []string{name, "@inl0", ",", "MSGBOX_DEFAULT"}, Inl: []Inline{g.inlineText()}}
	case 2:
		return Stmt{K: "cmd", Toks: []string{name, "OBJ_1", ",", "@inl0"}, Inl: []Inline{{Kind: "moves", Steps: g.steps(3)}}}
	default:
		return Stmt{K: "cmd", Toks: []string{name, "@inl0", ",", "X", ",", "@inl1"}, Inl: []Inline{g.inlineText(), g.inlineText()}}
	}
}

// decorate inserts inline-data commands and AutoVar-with-text conditions into a body.
func (g *fgen) decorate(body []Stmt, depth int) []Stmt {
	r := g.r
	var out []Stmt
	for i := range body {
		s := body[i]
		switch s.K {
		case "if":
			for j := range s.Arms {
				s.Arms[j].Body = g.decorate(s.Arms[j].Body, depth+1)
				if g.fc.AutoInline && r.Chance(1, 4) {
					s.Arms[j].Cond = g.autoTextCond(s.Arms[j].Cond)
				}
			}
			if s.HasElse {
				s.Els = g.decorate(s.Els, depth+1)
			}
		case "while", "dowhile":
			s.Body = g.decorate(s.Body, depth+1)
			if g.fc.AutoInline && s.Cond != nil && r.Chance(1, 3) {
				s.Cond = g.autoTextCond(s.Cond)
			}
		case "switch":
			for j := range s.Cases {
				s.Cases[j].Body = g.decorate(s.Cases[j].Body, depth+1)
			}
			if g.fc.AutoInline && len(s.Pre) == 0 && r.Chance(1, 4) {
				g.cmdSeq++
				name := fmt.Sprintf("autoq%d", g.cmdSeq)
				g.autoCfg[name] = AutoV{VarName: "VAR_RESULT"}
				s.Pre = []string{name, "@inl0", ",", "2"}
				s.PreInl = []Inline{g.inlineText()}
				s.V = "VAR_RESULT"
			}
		}
		if g.fc.Inline && r.Chance(1, 3) && !(s.K == "continue") {
			out = append(out, g.inlineCmd())
		}
		out = append(out, s)
	}
	if g.fc.Inline && (len(out) == 0 || out[len(out)-1].K != "continue") && r.Chance(1, 3) {
		out = append(out, g.inlineCmd())
	}
	return out
}

// autoTextCond replaces (or extends) a condition with an AutoVar leaf whose
// command has an inline text argument.
func (g *fgen) autoTextCond(old *Expr) *Expr {
	g.cmdSeq++
	name := fmt.Sprintf("autoq%d", g.cmdSeq)
	g.autoCfg[name] = AutoV{VarName: "VAR_RESULT"}
	leaf := &Expr{K: "leaf", Typ: "auto", Opnd: "VAR_RESULT", Toks: []string{name, "@inl0", ",", "MSGBOX_YESNO"},
		Inl: []Inline{g.inlineText()}, Form: "cmp", Op: "==", Val: "YES"}
	flagLeaf := func(n string) *Expr { return &Expr{K: "leaf", Typ: "flag", Opnd: n, Form: "bare"} }
	switch g.r.Intn(6) {
	case 0:
		return leaf
	case 1:
		return &Expr{K: "and", L: old, R: leaf}
	case 2:
		return &Expr{K: "or", L: leaf, R: old}
	case 3:
		// in the middle of a chain of three
		return &Expr{K: "and", L: &Expr{K: "and", L: flagLeaf("FLAG_M1"), R: leaf}, R: old}
	case 4:
		// in the middle of a chain of four, followed by ||
		return &Expr{K: "or", L: &Expr{K: "and", L: &Expr{K: "and", L: &Expr{K: "and", L: flagLeaf("FLAG_M1"), R: flagLeaf("FLAG_M2")}, R: leaf}, R: flagLeaf("FLAG_M3")}, R: old}
	default:
		return &Expr{K: "or", L: &Expr{K: "or", L: flagLeaf("FLAG_M1"), R: leaf}, R: &Expr{K: "not", E: old}}
	}
}

func (g *fgen) uniqueName(prefix string) string {
	for i := 0; ; i++ {
		n := fmt.Sprintf("%s%d", prefix, i)
		if !g.names[n] {
			g.names[n] = true
			return n
		}
	}
}

func (g *fgen) scopeMod() string {
	return []string{"", "", "global", "local"}[g.r.Intn(4)]
}

func (g *fgen) scriptBody() []Stmt {
	body := g.gen.block(genCtx{depth: 0, brace: true}, g.fc.Ctl.MaxStmts+1)
	return g.decorate(body, 0)
}

func (g *fgen) top(kind string) Top {
	r := g.r
	switch kind {
	case "script":
		return Top{K: "script", Name: g.uniqueName("Scr"), Scope: g.scopeMod(), Body: g.scriptBody()}
	case "text":
		in := g.inlineText()
		return Top{K: "text", Name: g.uniqueName("Txt"), Scope: g.scopeMod(),
			Text: &TextLit{Parts: in.Parts, Type: in.Type, IsFmt: in.IsFmt, Format: in.Format}}
	case "movement":
		return Top{K: "movement", Name: g.uniqueName("Mov"), Scope: g.scopeMod(), Items: g.steps(4)}
	case "mart":
		n := 1 + r.Intn(4)
		var items []ListItem
		for i := 0; i < n; i++ {
			items = append(items, ListItem{Name: r.Pick(genItems)})
		}
		if r.Chance(1, 3) {
			k := r.Intn(len(items) + 1)
			items = append(items[:k], append([]ListItem{{Name: "ITEM_NONE"}}, items[k:]...)...)
		}
		return Top{K: "mart", Name: g.uniqueName("Mart"), Scope: g.scopeMod(), Items: items}
	case "raw":
		return Top{K: "raw", Raw: []string{"\t.byte 1\n\t.byte 2", "RawLabel" + fmt.Sprint(r.Intn(1000)) + "::\n\tnop", "@ comment",
			"", "\n\t.byte 3\n\n\t.byte 4", "\t.byte 5\r\n\t.byte 6\r\n\t.byte 7", "  \t.2byte 8"}[r.Intn(7)]}
	case "mapscripts":
		t := Top{K: "mapscripts", Name: g.uniqueName("Map"), Scope: g.scopeMod()}
		n := r.Intn(4)
		types := r.Perm(len(genMSTypes))
		for i := 0; i < n; i++ {
			ty := genMSTypes[types[i]]
			e := MSEntry{Type: ty}
			switch r.Intn(3) {
			case 0:
				e.Kind = "plain"
				e.Target = "Some_Script_" + fmt.Sprint(i)
			case 1:
				e.Kind = "inline"
				e.Body = g.scriptBody()
			default:
				e.Kind = "table"
				m := 1 + r.Intn(3)
				for j := 0; j < m; j++ {
					te := MSTable{Var: r.Pick(genVars), Val: r.Pick(genVals)}
					if r.Chance(1, 2) {
						te.Kind = "plain"
						te.Target = "Tbl_Script_" + fmt.Sprint(j)
					} else {
						te.Kind = "inline"
						te.Body = g.scriptBody()
					}
					e.Table = append(e.Table, te)
				}
			}
			t.MS = append(t.MS, e)
		}
		return t
	}
	panic("unknown top kind " + kind)
}

// GenFile makes one random file and the AutoVar config it needs.
func GenFile(r *Rand, fc FileCfg, tag string) (*File, map[string]AutoV) {
	g := &fgen{gen: &gen{r: r, cfg: fc.Ctl}, fc: fc, autoCfg: genAutoVar(), names: map[string]bool{}}
	kinds := fc.Kinds
	if kinds == nil {
		kinds = []string{"script", "script", "script", "text", "movement", "mart"}
		if fc.MapScripts {
			kinds = append(kinds, "mapscripts")
		}
		if fc.Raw {
			kinds = append(kinds, "raw")
		}
	}
	f := &File{}
	n := 1 + r.Intn(fc.MaxTops)
	for i := 0; i < n; i++ {
		t := g.top(r.Pick(kinds))
		if t.Name != "" {
			t.Name = t.Name + tag
		}
		f.Tops = append(f.Tops, t)
	}
	return f, g.autoCfg
}

// ---------------------------------------------------------------------------
// Source-side facts about a file (no compiler involved).

// Occurrence is an inline text or moves() argument in source order.
type Occurrence struct {
	Script string
	Cmd    string // command name (unique per occurrence-bearing command in generated files)
	Arg    int    // argument index
	In     *Inline
}

func argIndexOf(toks []string, marker string) int {
	idx := 0
	for _, t := range toks[1:] {
		if t == "," {
			idx++
		}
		if t == marker {
			return idx
		}
	}
	return -1
}

func occOfToks(script string, toks []string, inl []Inline, out *[]Occurrence) {
	for k := range inl {
		*out = append(*out, Occurrence{Script: script, Cmd: toks[0], Arg: argIndexOf(toks, fmt.Sprintf("@inl%d", k)), In: &inl[k]})
	}
}

func occOfExpr(script string, e *Expr, out *[]Occurrence) {
	if e == nil {
		return
	}
	switch e.K {
	case "leaf":
		if e.Typ == "auto" {
			occOfToks(script, e.Toks, e.Inl, out)
		}
	case "not":
		occOfExpr(script, e.E, out)
	default:
		occOfExpr(script, e.L, out)
		occOfExpr(script, e.R, out)
	}
}

// occOfBody lists occurrences in textual source order.
func occOfBody(script string, body []Stmt, out *[]Occurrence) {
	for i := range body {
		s := &body[i]
		switch s.K {
		case "cmd":
			occOfToks(script, s.Toks, s.Inl, out)
		case "if":
			for j := range s.Arms {
				occOfExpr(script, s.Arms[j].Cond, out)
				occOfBody(script, s.Arms[j].Body, out)
			}
			occOfBody(script, s.Els, out)
		case "while":
			occOfExpr(script, s.Cond, out)
			occOfBody(script, s.Body, out)
		case "dowhile":
			occOfBody(script, s.Body, out)
			occOfExpr(script, s.Cond, out)
		case "switch":
			occOfToks(script, s.Pre, s.PreInl, out)
			for j := range s.Cases {
				occOfBody(script, s.Cases[j].Body, out)
			}
		}
	}
}

// InlineScripts lists (name, body) of every script of a file, inline map
// scripts included, in source order.
func InlineScripts(f *File) (names []string, bodies [][]Stmt) {
	for i := range f.Tops {
		t := &f.Tops[i]
		switch t.K {
		case "script":
			names = append(names, t.Name)
			bodies = append(bodies, t.Body)
		case "mapscripts":
			for j := range t.MS {
				e := &t.MS[j]
				switch e.Kind {
				case "inline":
					names = append(names, t.Name+"_"+e.Type)
					bodies = append(bodies, e.Body)
				case "table":
					for k := range e.Table {
						if e.Table[k].Kind == "inline" {
							names = append(names, fmt.Sprintf("%s_%s_%d", t.Name, e.Type, k))
							bodies = append(bodies, e.Table[k].Body)
						}
					}
				}
			}
		}
	}
	return
}

// Occurrences lists every inline occurrence of a file in source order.
func Occurrences(f *File) []Occurrence {
	var out []Occurrence
	names, bodies := InlineScripts(f)
	for i := range names {
		occOfBody(names[i], bodies[i], &out)
	}
	return out
}

// flatItems expands a list without poryswitch nodes to (name, mul) pairs.
func flatItems(items []ListItem) []map[string]interface{} {
	out := []map[string]interface{}{}
	for _, it := range items {
		if it.PS != nil {
			continue
		}
		m := 1
		if it.Mul != "" {
			fmt.Sscanf(it.Mul, "%d", &m)
			if strings.HasPrefix(it.Mul, "0x") {
				var h int
				fmt.Sscanf(it.Mul[2:], "%x", &h)
				m = h
			}
		}
		out = append(out, map[string]interface{}{"name": it.Name, "mul": m})
	}
	return out
}
