package main

// ./check cmdmodel : spec/CmdModel.tla (label / command disambiguation and argument lists of
// straight-line bodies) against the real compiler on EVERY token string of length <= 5 (6) over
// { a b ( ) , : global 1 }.  Implementation-level, not a property check.

import (
	"fmt"
	"strings"
	"time"
)

func init() {
	register("cmdmodel", "other", checkCmdModel)
}

var cmdAlphabet = []string{"a", "b", "(", ")", ",", ":", "global", "1"}

func checkCmdModel(c *Ctx) {
	maxLen := 5
	if !c.Quick() {
		maxLen = 6
	}
	fam, ok := cachedGenModule(c, "GenChars", map[string]int{"MaxLen": maxLen, "NSym": len(cmdAlphabet)}, "chars.ndjson")
	if !ok {
		return
	}
	var nd NDJSON
	srcOf := map[string]string{}
	n, inBatch, drift := 0, 0, 0
	var states int64
	failed := false
	flush := func() {
		if inBatch == 0 || failed {
			return
		}
		res, err := RunTLC("cmdall", TLCJob{Module: "CmdAll", Cfg: "CmdAll.cfg", Data: map[string][]byte{"cmdall.ndjson": nd.Bytes()},
			Workers: c.Workers, Timeout: 30 * time.Minute, HeapGB: 10})
		if err != nil || !res.Clean() {
			c.Fatal("CmdAll run failed: %v\n%s", err, tail(res.Output, 3000))
			failed = true
			return
		}
		for _, m := range reCaseFlag.FindAllStringSubmatch(res.Output, -1) {
			drift++
			if drift <= 8 {
				fmt.Printf("DRIFT command model: %s %q  model: %s\n", m[3], srcOf[m[3]], strings.Join(strings.Fields(m[4]), " "))
			}
		}
		states += res.Distinct
		nd = NDJSON{}
		inBatch = 0
	}
	for i, ln := range fam["chars.ndjson"] {
		var w []int
		if jsonUnmarshal([]byte(ln), &w) != nil {
			c.Fatal("bad GenChars line")
			return
		}
		toks := make([]string, len(w))
		for k, x := range w {
			toks[k] = cmdAlphabet[x-1]
		}
		src := "script S {\n    " + strings.Join(toks, " ") + "\n}\n"
		res := Compile(src, Opts{Optimize: i%2 == 0})
		lines := []string{}
		isErr := res.Err != nil || res.Panic != ""
		if !isErr {
			all := strings.Split(strings.TrimRight(res.Out, "\n"), "\n")
			// between "S::" and the final "\treturn"
			if len(all) >= 2 && all[0] == "S::" && all[len(all)-1] == "\treturn" {
				lines = append(lines, all[1:len(all)-1]...)
			} else {
				lines = append([]string{"<unexpected frame>"}, all...)
			}
		}
		id := fmt.Sprintf("c%d", i)
		srcOf[id] = strings.Join(toks, " ")
		nd.Add(map[string]interface{}{"id": id, "toks": toks, "err": isErr, "lines": lines})
		n++
		inBatch++
		if inBatch >= 100000 {
			flush()
		}
	}
	flush()
	if failed {
		return
	}
	msg := fmt.Sprintf("cmdmodel: %d token strings (all of length <= %d over %d tokens); accept/reject or emitted lines differ between model and real compiler: %d", n, maxLen, len(cmdAlphabet), drift)
	fmt.Println(msg)
	c.CovSet("explanation", msg)
	c.Cov("evaluations", int64(n))
	c.Cov("distinct_nontrivial", int64(n))
	c.Cov("states", states)
	if drift > 0 {
		c.Fatal("command model drift: %d strings", drift)
	}
}
