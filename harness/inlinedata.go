package main

// Inline data inside the product (Refine): a command's inline text / moves()
// argument is the token "@data:<k>" on the source side, with sdata["@data:<k>"]
// describing what was written; on the target side the token is the label the
// real compiler put there, with vdefs[label] describing that label's definition
// in the real output.  Refine!TokMatch (Emission rules) decides whether they agree.

import (
	"encoding/json"
	"fmt"
	"strings"
)

// withDataTokens returns a copy of p whose "@inl<k>" tokens are replaced by unique
// "@data:<n>" tokens, and the table of what each stands for.
func withDataTokens(p *Prog) (*Prog, map[string]interface{}, error) {
	sdata := map[string]interface{}{"@": map[string]interface{}{"kind": "none", "type": "", "parts": []string{}, "items": []interface{}{}}}
	has := false
	for i := range p.Scripts {
		walkStmts(p.Scripts[i].Body, func(s *Stmt) {
			if len(s.Inl) > 0 || len(s.PreInl) > 0 {
				has = true
			}
			for j := range s.Arms {
				walkExpr(s.Arms[j].Cond, func(e *Expr) {
					if len(e.Inl) > 0 {
						has = true
					}
				})
			}
			walkExpr(s.Cond, func(e *Expr) {
				if len(e.Inl) > 0 {
					has = true
				}
			})
		})
	}
	if !has {
		return p, sdata, nil
	}
	b, err := json.Marshal(p)
	if err != nil {
		return nil, nil, err
	}
	var q Prog
	if err := json.Unmarshal(b, &q); err != nil {
		return nil, nil, err
	}
	for i := range q.Scripts {
		normalizeStmts(q.Scripts[i].Body)
	}
	n := 0
	var ferr error
	sub := func(toks []string, inl []Inline) {
		for k := range inl {
			tok := fmt.Sprintf("@data:%d", n)
			n++
			in := &inl[k]
			d := map[string]interface{}{"kind": in.Kind, "type": in.Type, "parts": []string{}, "items": []interface{}{}}
			if in.Kind == "text" {
				content, err := sourceContent(in)
				if err != nil {
					ferr = err
					return
				}
				d["parts"] = strings.Split(content, "\n")
			} else {
				items := []interface{}{}
				for _, st := range in.Steps {
					if st.PS != nil {
						ferr = fmt.Errorf("poryswitch inside inline moves() is not resolved here")
						return
					}
					m, ok := mulValue(st.Mul)
					if !ok {
						ferr = fmt.Errorf("multiplier %q out of range", st.Mul)
						return
					}
					items = append(items, map[string]interface{}{"name": st.Name, "mul": m})
				}
				d["items"] = items
			}
			sdata[tok] = d
			ph := fmt.Sprintf("@inl%d", k)
			for t := range toks {
				if toks[t] == ph {
					toks[t] = tok
				}
			}
		}
	}
	for i := range q.Scripts {
		walkStmts(q.Scripts[i].Body, func(s *Stmt) {
			sub(s.Toks, s.Inl)
			sub(s.Pre, s.PreInl)
			for j := range s.Arms {
				walkExpr(s.Arms[j].Cond, func(e *Expr) { sub(e.Toks, e.Inl) })
			}
			walkExpr(s.Cond, func(e *Expr) { sub(e.Toks, e.Inl) })
		})
	}
	return &q, sdata, ferr
}

// targetDefs describes the data definitions of a parsed output (roles annotated).
func targetDefs(pa *ParsedAsm) map[string]interface{} {
	vdefs := map[string]interface{}{"@": map[string]interface{}{"kind": "none", "dir": "", "lines": []string{}, "rle": []interface{}{}}}
	for _, d := range outputDefs(pa) {
		name := d["name"].(string)
		rec := map[string]interface{}{"kind": d["kind"], "dir": d["dir"], "lines": []string{}, "rle": []interface{}{}}
		if d["kind"] == "text" {
			rec["lines"] = strings.Split(d["content"].(string), "\n")
		} else {
			rle := []interface{}{}
			for _, x := range d["content"].([]map[string]interface{}) {
				rle = append(rle, x)
			}
			rec["rle"] = rle
		}
		if _, dup := vdefs[name]; dup {
			rec["kind"] = "duplicate" // defined twice: matches nothing
		}
		vdefs[name] = rec
	}
	return vdefs
}

// fileRefineCases: seeded whole files whose scripts carry inline text / moves() arguments in
// commands and AutoVar conditions; every script (and inline map script) of a file is explored by
// the product with its inline data resolved.
func fileRefineCases(c *Ctx, r *Rand, n int, fc FileCfg, tag string, cases *[]*RefCase, rejected *int) int {
	made := 0
	for i := 0; i < n; i++ {
		f, av := GenFile(r, fc, "")
		names, bodies := InlineScripts(f)
		p := &Prog{}
		for k := range names {
			p.Scripts = append(p.Scripts, Script{Name: names[k], Body: bodies[k]})
		}
		if len(p.Scripts) == 0 || usesControlOpsAsCommands(p) {
			continue
		}
		// every third file is written with poryswitch (matched cases and '_' fallbacks, nested)
		// around what it denotes
		written := f
		var sw map[string]string
		if i%3 == 2 {
			sw = map[string]string{"GAME": "RUBY", "LANG": "EN"}
			written, _ = DecorateFile(f, sw, r, true, true, true, false)
		}
		src, _ := RenderFile(written, Style{R: r, Layout: r.Intn(3), Parens: r.Chance(1, 4)})
		compileBoth(c, fmt.Sprintf("%s%d", tag, i), p, src, Opts{AutoVar: av, FontConfig: repoFontConfig, Switches: sw}, cases, rejected)
		made++
		if i == 0 {
			c.Sample(map[string]interface{}{"family": "files with inline data", "source": src})
		}
	}
	c.Cov("files_with_inline_data", int64(made))
	return made
}
