package main

import (
	"encoding/json"
	"fmt"
	"strings"
)

func init() {
	register("C02", "model_checking", checkC02)
}

// exprShape is a tree exported by spec/GenExpr.tla.
type exprShape struct {
	K   string     `json:"k"`
	L   *exprShape `json:"l"`
	R   *exprShape `json:"r"`
	E   *exprShape `json:"e"`
	Neg bool       `json:"neg"`
}

type leafForm struct {
	Typ    string `json:"typ"`
	Form   string `json:"form"`
	Op     string `json:"op"`
	Val    string `json:"val"`
	Strict bool   `json:"strict"`
}

func (s *exprShape) leaves() int {
	switch s.K {
	case "leaf":
		return 1
	case "not":
		return s.E.leaves()
	}
	return s.L.leaves() + s.R.leaves()
}

// runGenExpr has TLC enumerate the expression family.
func runGenExpr(c *Ctx, maxLeaves int) ([]*exprShape, []leafForm, bool) {
	files, ok := cachedGenModule(c, "GenExpr", map[string]int{"MaxLeaves": maxLeaves}, "shapes.ndjson", "forms.ndjson")
	if !ok {
		return nil, nil, false
	}
	var shapes []*exprShape
	for _, ln := range files["shapes.ndjson"] {
		if strings.TrimSpace(ln) == "" {
			continue
		}
		var s exprShape
		if err := json.Unmarshal([]byte(ln), &s); err != nil {
			c.Fatal("bad shape line: %v", err)
			return nil, nil, false
		}
		shapes = append(shapes, &s)
	}
	var forms []leafForm
	for _, ln := range files["forms.ndjson"] {
		if strings.TrimSpace(ln) == "" {
			continue
		}
		var f leafForm
		if err := json.Unmarshal([]byte(ln), &f); err != nil {
			c.Fatal("bad form line: %v", err)
			return nil, nil, false
		}
		forms = append(forms, f)
	}
	if len(shapes) == 0 || len(forms) == 0 {
		c.Fatal("GenExpr produced nothing")
		return nil, nil, false
	}
	return shapes, forms, true
}

// instantiate fills a shape's leaves with forms; leaf i gets form
// forms[(variant + 5*i) mod n] and its own operand (sometimes leaf 1's).
func instantiate(s *exprShape, forms []leafForm, variant int, idx *int, r *Rand) *Expr {
	switch s.K {
	case "not":
		return &Expr{K: "not", E: instantiate(s.E, forms, variant, idx, r)}
	case "and", "or":
		l := instantiate(s.L, forms, variant, idx, r)
		rr := instantiate(s.R, forms, variant, idx, r)
		return &Expr{K: s.K, L: l, R: rr}
	}
	*idx++
	i := *idx
	f := forms[(variant+5*i)%len(forms)]
	op := i
	if i > 1 && r.Chance(1, 5) {
		op = 1
	}
	e := &Expr{K: "leaf", Typ: f.Typ, Form: f.Form, Op: f.Op, Val: f.Val, Strict: f.Strict}
	if f.Typ == "auto" {
		a := autoLeaf(variant+i, false)
		e.Toks, e.Opnd = a.Toks, a.Opnd
	}
	switch f.Typ {
	case "auto":
	case "flag":
		e.Opnd = fmt.Sprintf("FLAG_%d", op)
	case "defeated":
		e.Opnd = fmt.Sprintf("TRAINER_%d", op)
	default:
		e.Opnd = fmt.Sprintf("VAR_%d", op)
	}
	if s.Neg {
		// a '!'-prefixed leaf is only written on the bare form
		e.Form = "not"
		e.Op, e.Val, e.Strict = "", "", false
	}
	return e
}

func condProgram(name string, e *Expr, kind int) *Prog {
	yes := Stmt{K: "cmd", Toks: []string{"yes"}}
	no := Stmt{K: "cmd", Toks: []string{"no"}}
	after := Stmt{K: "cmd", Toks: []string{"after"}}
	var body []Stmt
	switch kind {
	case 0:
		body = []Stmt{{K: "if", Arms: []Arm{{Cond: e, Body: []Stmt{yes}}}, HasElse: true, Els: []Stmt{no}}, after}
	case 1:
		body = []Stmt{{K: "while", HasCond: true, Cond: e, Body: []Stmt{yes}}, after}
	case 2:
		body = []Stmt{{K: "dowhile", Cond: e, Body: []Stmt{yes}}}
	case 3:
		// as an elif condition, without else
		first := &Expr{K: "leaf", Typ: "flag", Opnd: "FLAG_Q", Form: "bare"}
		body = []Stmt{{K: "if", Arms: []Arm{{Cond: first, Body: []Stmt{no}}, {Cond: e, Body: []Stmt{yes}}}}, after}
	case 4:
		// all bodies empty: the condition is still evaluated (its AutoVar commands run)
		body = []Stmt{{K: "if", Arms: []Arm{{Cond: e, Body: []Stmt{}}}}, after}
	default:
		first := &Expr{K: "leaf", Typ: "flag", Opnd: "FLAG_Q", Form: "bare"}
		body = []Stmt{{K: "if", Arms: []Arm{{Cond: first, Body: []Stmt{}}, {Cond: e, Body: []Stmt{}}}, HasElse: true, Els: []Stmt{}}}
	}
	return &Prog{Scripts: []Script{{Name: name, Body: body}}}
}

func checkC02(c *Ctx) {
	maxLeaves := 4
	shapes, forms, ok := runGenExpr(c, maxLeaves)
	if !ok {
		return
	}
	r := NewRand(c.Seed*104729 + 2)
	var cases []*RefCase
	rejected := 0
	nprog := 0
	distinct := map[string]bool{}
	sample4 := 2500
	if !c.Quick() {
		sample4 = 1 << 30
	}
	// how many 4-leaf shapes are there
	n4 := 0
	for _, s := range shapes {
		if s.leaves() == 4 {
			n4++
		}
	}
	for si, s := range shapes {
		nl := s.leaves()
		variants := 1
		if nl == 1 {
			variants = len(forms) // every leaf form, alone
		} else if nl <= 3 {
			variants = 3
			if !c.Quick() {
				variants = 8
			}
		} else if r.Intn(n4) >= sample4 {
			continue
		}
		for vi := 0; vi < variants; vi++ {
			variant := vi
			if nl > 1 {
				variant = r.Intn(len(forms))
			}
			idx := 0
			e := instantiate(s, forms, variant, &idx, r)
			kind := (si + vi) % 6
			p := condProgram(fmt.Sprintf("S%d_%d", si, vi), e, kind)
			st := Style{R: r, Parens: (si+vi)%2 == 1, Layout: 0}
			src := RenderProg(p, st)
			if distinct[src] {
				continue
			}
			distinct[src] = true
			nprog++
			compileBoth(c, fmt.Sprintf("e%d.%d", si, vi), p, src, Opts{AutoVar: genAutoVar()}, &cases, &rejected)
			if nprog%400 == 1 {
				c.Sample(map[string]interface{}{"source": src})
			}
		}
	}
	// every well-formed condition text of <= 11 (13) tokens, written exactly as enumerated (all
	// placements of redundant parentheses and of '!'), against its usual reading
	maxTok := 11
	if !c.Quick() {
		maxTok = 13
	}
	nstr := 0
	for i, toks := range condStrings(maxTok) {
		e := condMeaning(toks)
		name := fmt.Sprintf("T%d", i)
		p := condProgram(name, e, 0)
		src := "script " + name + " {\n    if (" + condText(toks) + ") {\n        yes\n    } else {\n        no\n    }\n    after\n}\n"
		nstr++
		compileBoth(c, fmt.Sprintf("t%d", i), p, src, Opts{}, &cases, &rejected)
	}
	c.Cov("condition_texts_enumerated", int64(nstr))
	st := RunRefine(c, cases, 4000, "branch taken differs from the value of the written boolean expression", nil)
	c.Cov("programs", int64(nprog))
	c.Cov("cases", int64(st.Cases))
	c.Cov("shapes_enumerated_by_tlc", int64(len(shapes)))
	c.Cov("leaf_forms", int64(len(forms)))
	c.Cov("rejected_by_compiler", int64(rejected))
	c.Cov("states", st.States)
	c.Cov("transitions", st.Generated)
	c.Cov("traces_validated_against_impl", int64(st.Cases))
	c.CovSet("exhaustive_upto_leaves", 3)
	if rejected > 0 {
		o := rejectedExample.o
		c.Violate(Violation{What: fmt.Sprintf("%d well-formed conditions were rejected by the compiler (first: %s)", rejected, rejectedExample.err), Source: rejectedExample.src, Opts: &o})
	}
}

// ---------------------------------------------------------------------------
// Every well-formed condition of at most n tokens over ( ) && || ! leaf, as written text.
//   E ::= T (op T)*        T ::= leaf | ! leaf | ( E ) | ! ( E )
// The meaning (the tree PoryLang evaluates) is computed here by the usual reading: '!' binds
// tightest, then '&&', then '||', parentheses override; the text itself goes to the compiler.

func condStrings(n int) [][]string {
	memoE := map[int][][]string{}
	memoT := map[int][][]string{}
	var E, T func(k int) [][]string
	T = func(k int) [][]string {
		if v, ok := memoT[k]; ok {
			return v
		}
		var out [][]string
		if k == 1 {
			out = append(out, []string{"L"})
		}
		if k == 2 {
			out = append(out, []string{"!", "L"})
		}
		if k >= 3 {
			for _, e := range E(k - 2) {
				out = append(out, append(append([]string{"("}, e...), ")"))
			}
		}
		if k >= 4 {
			for _, e := range E(k - 3) {
				out = append(out, append(append([]string{"!", "("}, e...), ")"))
			}
		}
		memoT[k] = out
		return out
	}
	E = func(k int) [][]string {
		if v, ok := memoE[k]; ok {
			return v
		}
		out := append([][]string{}, T(k)...)
		for a := 1; a <= k-2; a++ {
			for _, t := range T(a) {
				for _, op := range []string{"&&", "||"} {
					for _, rest := range E(k - a - 1) {
						out = append(out, append(append(append([]string{}, t...), op), rest...))
					}
				}
			}
		}
		memoE[k] = out
		return out
	}
	var all [][]string
	for k := 1; k <= n; k++ {
		all = append(all, E(k)...)
	}
	return all
}

// condMeaning parses a token list by the usual reading into the abstract syntax.
func condMeaning(toks []string) *Expr {
	pos, leaf := 0, 0
	var or, and, unary func() *Expr
	unary = func() *Expr {
		if toks[pos] == "!" {
			pos++
			if toks[pos] == "(" {
				pos++
				e := or()
				pos++ // ")"
				return &Expr{K: "not", E: e}
			}
			pos++
			leaf++
			return &Expr{K: "leaf", Typ: "flag", Opnd: fmt.Sprintf("FLAG_%d", leaf), Form: "not"}
		}
		if toks[pos] == "(" {
			pos++
			e := or()
			pos++
			return e
		}
		pos++
		leaf++
		return &Expr{K: "leaf", Typ: "flag", Opnd: fmt.Sprintf("FLAG_%d", leaf), Form: "bare"}
	}
	and = func() *Expr {
		e := unary()
		for pos < len(toks) && toks[pos] == "&&" {
			pos++
			e = &Expr{K: "and", L: e, R: unary()}
		}
		return e
	}
	or = func() *Expr {
		e := and()
		for pos < len(toks) && toks[pos] == "||" {
			pos++
			e = &Expr{K: "or", L: e, R: and()}
		}
		return e
	}
	return or()
}

// condText writes the token list as source text (leaves numbered in order).
func condText(toks []string) string {
	var sb strings.Builder
	leaf := 0
	for i, t := range toks {
		if i > 0 && !(toks[i-1] == "!" || toks[i-1] == "(" || t == ")") {
			sb.WriteString(" ")
		}
		if t == "L" {
			leaf++
			fmt.Fprintf(&sb, "flag(FLAG_%d)", leaf)
		} else {
			sb.WriteString(t)
		}
	}
	return sb.String()
}
